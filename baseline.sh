#!/bin/sh
# Runs the repository's pinned test suite (all three modules) with the verif guard OFF (no overlay, no tags).
export GOFLAGS=-mod=mod GOPROXY=off GOSUMDB=off GOTOOLCHAIN=local
rc=0
for m in . fuzz tests; do
  (cd /repo/$m && go test -mod=mod -vet=off -count=1 -timeout 25m ./...) || rc=1
done
exit $rc
