package main

import (
	"fmt"
	"go/types"

	"golang.org/x/tools/go/ssa"
)

func (m *Machine) callBuiltin(fr *Frame, b *ssa.Builtin, args []Value, cc *ssa.CallCommon) Value {
	c := m.ctx
	sig := b.Type().(*types.Signature)
	argT := func(i int) types.Type {
		if i < sig.Params().Len() {
			return sig.Params().At(i).Type()
		}
		return nil
	}
	switch b.Name() {
	case "len":
		switch t := argT(0).Underlying().(type) {
		case *types.Basic, *types.Slice:
			return args[0].(Agg)[1]
		case *types.Map:
			return m.mapLen(args[0].(*Term))
		case *types.Array:
			return c.Const(uint64(t.Len()), 64)
		case *types.Pointer:
			return c.Const(uint64(t.Elem().Underlying().(*types.Array).Len()), 64)
		}
	case "cap":
		switch t := argT(0).Underlying().(type) {
		case *types.Slice:
			return args[0].(Agg)[2]
		case *types.Array:
			return c.Const(uint64(t.Len()), 64)
		case *types.Pointer:
			return c.Const(uint64(t.Elem().Underlying().(*types.Array).Len()), 64)
		}
	case "append":
		return m.appendOp(argT(0), argT(1), args[0].(Agg), args[1].(Agg))
	case "copy":
		dst, src := args[0].(Agg), args[1].(Agg)
		es := 1
		if st, ok := argT(0).Underlying().(*types.Slice); ok {
			es = m.sizeof(st.Elem())
		}
		ld, ls := dst[1].(*Term), src[1].(*Term)
		n := c.Ite(c.Ult(ld, ls), ld, ls)
		k := int(m.concretize(n, "copy length"))
		m.copyBytes(dst[0].(*Term), src[0].(*Term), k*es)
		return c.Const(uint64(k), 64)
	case "delete":
		mt := argT(0).Underlying().(*types.Map)
		m.mapDelete(args[0].(*Term), mt, args[1])
		return nil
	case "print", "println":
		return nil
	case "recover":
		if fr.caller != nil && fr.caller.panicking != nil && !fr.caller.recovered {
			fr.caller.recovered = true
			gp := fr.caller.panicking
			if gp.runtime {
				// runtime.Error value: modelled as an error interface wrapping an opaque string
				return m.makeRuntimeError(gp.msg)
			}
			return gp.val
		}
		return Agg{c.Const(0, 64), c.Const(0, 64)}
	case "min", "max":
		r := args[0].(*Term)
		for _, a := range args[1:] {
			x := a.(*Term)
			var lt *Term
			if isSigned(argT(0)) {
				lt = c.Slt(x, r)
			} else {
				lt = c.Ult(x, r)
			}
			if b.Name() == "max" {
				lt = c.Not(c.Or(lt, c.Eq(x, r)))
			}
			r = c.Ite(lt, x, r)
		}
		return r
	case "ssa:wrapnilchk":
		p := m.simp(args[0].(*Term))
		if p.IsConst() && p.Val == 0 {
			panic(&GuestPanic{runtime: true, msg: "value method called using nil pointer", site: m.site()})
		}
		return args[0]
	case "Add": // unsafe.Add(ptr, len)
		return c.BvAdd(args[0].(*Term), m.toInt64(args[1].(*Term), argT(1)))
	case "Slice": // unsafe.Slice(ptr, len)
		n := m.toInt64(args[1].(*Term), argT(1))
		p := args[0].(*Term)
		if !m.branch(c.Sle(c.Const(0, 64), n)) {
			panic(&GuestPanic{runtime: true, msg: "unsafe.Slice: len out of range", site: m.site()})
		}
		if ps := m.simp(p); ps.IsConst() && ps.Val == 0 {
			if m.branch(c.Eq(n, c.Const(0, 64))) {
				return Agg{c.Const(0, 64), c.Const(0, 64), c.Const(0, 64)}
			}
			panic(&GuestPanic{runtime: true, msg: "unsafe.Slice: ptr is nil and len is not zero", site: m.site()})
		}
		return Agg{p, n, n}
	case "SliceData":
		return args[0].(Agg)[0]
	case "String": // unsafe.String(ptr, len)
		n := m.toInt64(args[1].(*Term), argT(1))
		if !m.branch(c.Sle(c.Const(0, 64), n)) {
			panic(&GuestPanic{runtime: true, msg: "unsafe.String: len out of range", site: m.site()})
		}
		return Agg{args[0].(*Term), n}
	case "StringData":
		return args[0].(Agg)[0]
	case "clear":
		m.unsupported("builtin clear")
	}
	m.unsupported("builtin %s", b.Name())
	return nil
}

func (m *Machine) makeRuntimeError(msg string) Value {
	// represented as interface holding a string (dynamic type string): enough for harness classification
	return m.makeIface(types.Typ[types.String], m.mkString("runtime error: "+msg))
}

// appendOp: append(s, t...) where t is a slice or string.
func (m *Machine) appendOp(st, tt types.Type, s, t Agg) Value {
	c := m.ctx
	et := st.Underlying().(*types.Slice).Elem()
	es := m.sizeof(et)
	tl := int(int64(m.concretize(t[1].(*Term), "append arg len")))
	if tl == 0 {
		return s
	}
	sl := int(int64(m.concretize(s[1].(*Term), "append len")))
	sc := int(int64(m.concretize(s[2].(*Term), "append cap")))
	nl := sl + tl
	if nl <= sc {
		dst := c.BvAdd(s[0].(*Term), c.Const(uint64(sl*es), 64))
		m.copyBytes(dst, t[0].(*Term), tl*es)
		return Agg{s[0], c.Const(uint64(nl), 64), s[2]}
	}
	// grow: any capacity >= nl is allowed by the spec; use a Go-like doubling
	nc := sc * 2
	if nc < nl {
		nc = nl
	}
	if nc < 8 {
		nc = 8
	}
	if nc*es > m.cfg.MaxAlloc {
		m.unsupported("append growth to %d elements too large for the engine", nc)
	}
	m.allocEvent("append beyond capacity (growslice) []" + et.String())
	b := m.allocObj(et, nc, "append growth []"+et.String())
	if sl > 0 {
		m.copyBytes(m.ptr(b), s[0].(*Term), sl*es)
	}
	m.copyBytes(c.Const(b.base+uint64(sl*es), 64), t[0].(*Term), tl*es)
	return Agg{m.ptr(b), c.Const(uint64(nl), 64), c.Const(uint64(nc), 64)}
}

// loadIndexed loads n bytes at a possibly symbolic address. For symbolic
// addresses inside one block it builds an ITE chain over candidate slots
// (grouped by value) instead of forking.
func (m *Machine) loadIndexed(p *Term, n int) *Term {
	c := m.ctx
	p = m.simp(p)
	if p.IsConst() {
		return m.loadBitsC(p, n)
	}
	// find anchor constant
	var anchor uint64
	var varPart *Term
	if p.Op == OpBvAdd && p.Args[1].IsConst() {
		anchor = p.Args[1].Val
		varPart = p.Args[0]
	} else {
		return m.loadBitsC(p, n) // falls back to concretisation
	}
	b := m.heap.find(anchor)
	if b == nil {
		return m.loadBitsC(p, n)
	}
	if b.garbage {
		b = m.wblock(b)
	}
	maxOff := c.maxVal(varPart)
	start := int(anchor - b.base)
	end := b.size - n
	if maxOff < uint64(end-start) {
		end = start + int(maxOff)
	}
	// bounds: p must stay inside [anchor, b.base+size-n]
	inb := c.Ule(varPart, c.Const(uint64(b.size-n-start), 64))
	m.monitor(inb, "fault", fmt.Sprintf("M-bounds: indexed load of %d bytes beyond %s", n, b.String()))
	stride := n
	nslots := (end-start)/stride + 1
	if nslots > m.cfg.MaxIteSlots || end < start {
		return m.loadBitsC(p, n)
	}
	// group slots by value
	type grp struct {
		val  *Term
		cond *Term
		cnt  int
	}
	groups := map[int]*grp{}
	var order []int
	for o := start; o <= end; o += stride {
		v := m.rawLoad(b, o, n)
		g := groups[v.ID]
		eq := c.Eq(varPart, c.Const(uint64(o-start), 64))
		if g == nil {
			g = &grp{val: v, cond: eq}
			groups[v.ID] = g
			order = append(order, v.ID)
		} else {
			g.cond = c.Or(g.cond, eq)
		}
		g.cnt++
	}
	// misaligned offsets (not multiples of stride) are not representable here; require alignment
	if stride > 1 {
		al := c.Eq(c.BvURem(varPart, c.Const(uint64(stride), 64)), c.Const(0, 64))
		if al = m.simp(al); !(al.IsConst() && al.Val != 0) {
			if m.feasible(c.Not(al)) != Unsat {
				return m.loadBitsC(p, n)
			}
		}
	}
	// few distinct (concrete) values: fork on the value class instead of building an ITE term, so that
	// arithmetic on the loaded value stays linear (size tables such as typeToSize / minWireSize)
	if len(order) > 1 && len(order) <= m.cfg.SplitGroups {
		allConst := true
		for _, id := range order {
			if !groups[id].val.IsConst() {
				allConst = false
			}
		}
		if allConst {
			alts := make([]*Term, len(order))
			for i, id := range order {
				alts[i] = groups[id].cond
			}
			d := m.decide(alts)
			return groups[order[d]].val
		}
	}
	// default = most frequent
	best := order[0]
	for _, id := range order {
		if groups[id].cnt > groups[best].cnt {
			best = id
		}
	}
	res := groups[best].val
	for _, id := range order {
		if id == best {
			continue
		}
		res = c.Ite(groups[id].cond, groups[id].val, res)
	}
	return res
}

// storeIndexed: conditional store at a symbolic address within one block.
func (m *Machine) storeIndexed(p *Term, t *Term, n int) bool {
	c := m.ctx
	if !(p.Op == OpBvAdd && p.Args[1].IsConst()) {
		return false
	}
	anchor := p.Args[1].Val
	varPart := p.Args[0]
	b := m.heap.find(anchor)
	if b == nil || b.readonly {
		return false
	}
	maxOff := c.maxVal(varPart)
	start := int(anchor - b.base)
	end := b.size - n
	if maxOff < uint64(end-start) {
		end = start + int(maxOff)
	}
	nslots := (end-start)/n + 1
	if nslots > m.cfg.MaxIteSlots {
		return false
	}
	if n > 1 {
		al := m.simp(c.Eq(c.BvURem(varPart, c.Const(uint64(n), 64)), c.Const(0, 64)))
		if !(al.IsConst() && al.Val != 0) && m.feasible(c.Not(al)) != Unsat {
			return false
		}
	}
	inb := c.Ule(varPart, c.Const(uint64(b.size-n-start), 64))
	m.monitor(inb, "fault", fmt.Sprintf("M-bounds: indexed store of %d bytes beyond %s", n, b.String()))
	if b.released {
		m.violate("monitor", "M-released: store to pooled object after Put: "+b.name, nil)
	}
	if b.frozen && m.frozenOn {
		m.violate("monitor", "M-frozen: store to frozen "+b.name, nil)
	}
	b = m.wblock(b)
	for o := start; o <= end; o += n {
		old := m.rawLoad(b, o, n)
		eq := c.Eq(varPart, c.Const(uint64(o-start), 64))
		m.rawStore(b, o, c.Ite(eq, t, old), n)
	}
	return true
}
