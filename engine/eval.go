package main

import (
	"math"
)

func f64(v uint64) float64 { return math.Float64frombits(v) }
func f32(v uint64) float32 { return math.Float32frombits(uint32(v)) }

func fpv(v uint64, w int) float64 {
	if w == 64 {
		return f64(v)
	}
	return float64(f32(v))
}

func b2u(b bool) uint64 {
	if b {
		return 1
	}
	return 0
}

// Eval evaluates t under env (variable name -> value); missing variables are 0.
func (c *Ctx) Eval(t *Term, env map[string]uint64, memo map[int]uint64) uint64 {
	if v, ok := memo[t.ID]; ok {
		return v
	}
	var r uint64
	a := func(i int) uint64 { return c.Eval(t.Args[i], env, memo) }
	w := t.W
	switch t.Op {
	case OpConst:
		r = t.Val
	case OpVar:
		r = env[t.Name] & mask(maxi(t.W, 1))
	case OpNot:
		r = 1 - a(0)
	case OpAnd:
		r = a(0) & a(1)
	case OpOr:
		r = a(0) | a(1)
	case OpEq:
		r = b2u(a(0) == a(1))
	case OpIte:
		if a(0) != 0 {
			r = a(1)
		} else {
			r = a(2)
		}
	case OpBvNot:
		r = ^a(0)
	case OpBvNeg:
		r = -a(0)
	case OpBvAnd:
		r = a(0) & a(1)
	case OpBvOr:
		r = a(0) | a(1)
	case OpBvXor:
		r = a(0) ^ a(1)
	case OpBvAdd:
		r = a(0) + a(1)
	case OpBvSub:
		r = a(0) - a(1)
	case OpBvMul:
		r = a(0) * a(1)
	case OpBvUDiv:
		if a(1) == 0 {
			r = mask(w)
		} else {
			r = a(0) / a(1)
		}
	case OpBvURem:
		if a(1) == 0 {
			r = a(0)
		} else {
			r = a(0) % a(1)
		}
	case OpBvSDiv:
		x, y := sext64(a(0), w), sext64(a(1), w)
		switch {
		case y == 0:
			if x < 0 {
				r = 1
			} else {
				r = mask(w)
			}
		case y == -1:
			r = uint64(-x)
		default:
			r = uint64(x / y)
		}
	case OpBvSRem:
		x, y := sext64(a(0), w), sext64(a(1), w)
		switch {
		case y == 0:
			r = uint64(x)
		case y == -1:
			r = 0
		default:
			r = uint64(x % y)
		}
	case OpBvShl:
		if a(1) >= uint64(w) {
			r = 0
		} else {
			r = a(0) << a(1)
		}
	case OpBvLshr:
		if a(1) >= uint64(w) {
			r = 0
		} else {
			r = a(0) >> a(1)
		}
	case OpBvAshr:
		n := a(1)
		if n >= uint64(w) {
			n = uint64(w - 1)
		}
		r = uint64(sext64(a(0), w) >> n)
	case OpUlt:
		r = b2u(a(0) < a(1))
	case OpUle:
		r = b2u(a(0) <= a(1))
	case OpSlt:
		aw := t.Args[0].W
		r = b2u(sext64(a(0), aw) < sext64(a(1), aw))
	case OpSle:
		aw := t.Args[0].W
		r = b2u(sext64(a(0), aw) <= sext64(a(1), aw))
	case OpConcat:
		for i := range t.Args {
			r = r<<uint(t.Args[i].W) | a(i)
		}
	case OpExtract:
		r = a(0) >> uint(t.Lo)
	case OpSignExt:
		r = uint64(sext64(a(0), t.Args[0].W))
	case OpFpEq:
		r = b2u(fpv(a(0), t.Args[0].W) == fpv(a(1), t.Args[0].W))
	case OpFpLt:
		r = b2u(fpv(a(0), t.Args[0].W) < fpv(a(1), t.Args[0].W))
	case OpFpLe:
		r = b2u(fpv(a(0), t.Args[0].W) <= fpv(a(1), t.Args[0].W))
	case OpFpIsNaN:
		x := fpv(a(0), t.Args[0].W)
		r = b2u(x != x)
	default:
		panic("eval: unknown op")
	}
	if w == 0 {
		r &= 1
	} else {
		r &= mask(w)
	}
	memo[t.ID] = r
	return r
}

func maxi(a, b int) int {
	if a > b {
		return a
	}
	return b
}

// Subst rebuilds t replacing sub-terms found in known (by ID) with constants.
func (c *Ctx) Subst(t *Term, known map[int]*Term, memo map[int]*Term) *Term {
	if len(known) == 0 {
		return t
	}
	if r, ok := known[t.ID]; ok {
		return r
	}
	if len(t.Args) == 0 {
		return t
	}
	if r, ok := memo[t.ID]; ok {
		return r
	}
	args := make([]*Term, len(t.Args))
	changed := false
	for i, a := range t.Args {
		args[i] = c.Subst(a, known, memo)
		if args[i] != a {
			changed = true
		}
	}
	r := t
	if changed {
		r = c.Rebuild(t, args)
	}
	memo[t.ID] = r
	return r
}

// Rebuild re-applies the smart constructor of t.Op on new args.
func (c *Ctx) Rebuild(t *Term, a []*Term) *Term {
	switch t.Op {
	case OpNot:
		return c.Not(a[0])
	case OpAnd:
		return c.And(a[0], a[1])
	case OpOr:
		return c.Or(a[0], a[1])
	case OpEq:
		return c.Eq(a[0], a[1])
	case OpIte:
		return c.Ite(a[0], a[1], a[2])
	case OpBvNot:
		return c.BvNot(a[0])
	case OpBvNeg:
		return c.BvNeg(a[0])
	case OpBvAnd:
		return c.BvAnd(a[0], a[1])
	case OpBvOr:
		return c.BvOr(a[0], a[1])
	case OpBvXor:
		return c.BvXor(a[0], a[1])
	case OpBvAdd:
		return c.BvAdd(a[0], a[1])
	case OpBvSub:
		return c.BvSub(a[0], a[1])
	case OpBvMul:
		return c.BvMul(a[0], a[1])
	case OpBvUDiv:
		return c.BvUDiv(a[0], a[1])
	case OpBvURem:
		return c.BvURem(a[0], a[1])
	case OpBvSDiv:
		return c.BvSDiv(a[0], a[1])
	case OpBvSRem:
		return c.BvSRem(a[0], a[1])
	case OpBvShl:
		return c.BvShl(a[0], a[1])
	case OpBvLshr:
		return c.BvLshr(a[0], a[1])
	case OpBvAshr:
		return c.BvAshr(a[0], a[1])
	case OpUlt:
		return c.Ult(a[0], a[1])
	case OpUle:
		return c.Ule(a[0], a[1])
	case OpSlt:
		return c.Slt(a[0], a[1])
	case OpSle:
		return c.Sle(a[0], a[1])
	case OpConcat:
		r := a[0]
		for _, x := range a[1:] {
			r = c.Concat(r, x)
		}
		return r
	case OpExtract:
		return c.Extract(a[0], int(t.Val), t.Lo)
	case OpSignExt:
		return c.SignExt(a[0], t.W)
	case OpFpEq:
		return c.FpEq(a[0], a[1])
	case OpFpLt:
		return c.FpLt(a[0], a[1])
	case OpFpLe:
		return c.FpLe(a[0], a[1])
	case OpFpIsNaN:
		return c.raw(OpFpIsNaN, 0, a[0])
	}
	panic("rebuild: unknown op")
}

// Vars collects variable names reachable from t.
func (c *Ctx) Vars(t *Term, seen map[int]bool, out map[string]int) {
	if seen[t.ID] {
		return
	}
	seen[t.ID] = true
	if t.Op == OpVar {
		out[t.Name] = t.W
	}
	for _, a := range t.Args {
		c.Vars(a, seen, out)
	}
}
