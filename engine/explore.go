package main

import (
	"fmt"
	"go/types"
	"os"
	"runtime/debug"
	"sort"
	"strings"
	"time"

	"golang.org/x/tools/go/ssa"
	"golang.org/x/tools/go/types/typeutil"
)

// globalDeadline: end of the whole run's wall-clock budget (zero: none).
var globalDeadline time.Time

type JobCfg struct {
	StepLimit       int64             `json:"step_limit"`
	MaxDepth        int               `json:"max_depth"`
	ConcretizeCap   int               `json:"concretize_cap"`
	MaxAlloc        int               `json:"max_alloc"`
	MaxIteSlots     int               `json:"max_ite_slots"`
	MapReverse      bool              `json:"map_reverse"`
	Env             map[string]string `json:"env"`
	SymEnvLen       int               `json:"sym_env_len"`
	PoolPolicy      string            `json:"pool_policy"`
	MaxPaths        int               `json:"max_paths"`
	TimeoutS        int               `json:"timeout_s"`
	SolverTimeoutMs int               `json:"solver_timeout_ms"`
	Solver          string            `json:"solver"`
	Params          map[string]int    `json:"params"`
	SplitGroups     int               `json:"split_groups"`
	PreemptionBound int               `json:"preemption_bound"`
	SymAlloc        bool              `json:"sym_alloc"` // mallocgc with a symbolic size keeps it symbolic
}

func (c *JobCfg) defaults() {
	if c.StepLimit == 0 {
		c.StepLimit = 5_000_000
	}
	if c.MaxDepth == 0 {
		c.MaxDepth = 4000
	}
	if c.ConcretizeCap == 0 {
		c.ConcretizeCap = 300
	}
	if c.MaxAlloc == 0 {
		c.MaxAlloc = 1 << 22
	}
	if c.MaxIteSlots == 0 {
		c.MaxIteSlots = 70000
	}
	if c.MaxPaths == 0 {
		c.MaxPaths = 200000
	}
	if c.TimeoutS == 0 {
		c.TimeoutS = 600
	}
	if c.SolverTimeoutMs == 0 {
		c.SolverTimeoutMs = 10000
	}
	if c.SplitGroups == 0 {
		c.SplitGroups = 8
	}
	if c.PoolPolicy == "" {
		c.PoolPolicy = "reuse"
	}
}

type Job struct {
	ID        string      `json:"id"`
	Entry     string      `json:"entry"` // "pkgpath.Func"
	Setup     string      `json:"setup"` // optional, decision-free
	Cfg       JobCfg      `json:"cfg"`
	Reach     []string    `json:"reach"`      // labels that must be reached on some path (vacuity guard)
	Fixed     []NondetVal `json:"fixed"`      // concrete mode: run once with these nondet values (translator validation)
	FixedSeed uint64      `json:"fixed_seed"` // concrete mode with pseudo-random values
	Tags      []string    `json:"tags"`
}

type JobResult struct {
	ID            string         `json:"id"`
	Entry         string         `json:"entry"`
	Paths         int            `json:"paths"`
	PathStatus    map[string]int `json:"path_status"`
	Violations    []Violation    `json:"violations"`
	Reached       []string       `json:"reached"`
	MissingReach  []string       `json:"missing_reach"`
	Inconclusive  []string       `json:"inconclusive"`
	Error         string         `json:"error,omitempty"`
	Queries       int            `json:"queries"`
	Sat           int            `json:"sat"`
	Unsat         int            `json:"unsat"`
	Unknown       int            `json:"unknown"`
	SolverErrors  int            `json:"solver_errors"`
	SolverS       float64        `json:"solver_s"`
	WallS         float64        `json:"wall_s"`
	Steps         int64          `json:"steps"`
	Checks        int            `json:"checks"`
	Branches      int            `json:"branches"`
	WitnessHits   int            `json:"witness_hits"`
	ChecksRewrite int            `json:"checks_by_rewriting"`
	ChecksSolver  int            `json:"checks_by_solver"`
	MemoHits      int            `json:"memo_hits"`
	Funcs         []string       `json:"funcs"`
	Models        map[string]int `json:"models"`
	Nondets       int            `json:"max_nondets"`
	Sample        []string       `json:"sample_path,omitempty"`
	Observed      []string       `json:"observed,omitempty"`
	FailedChecks  []string       `json:"failed_checks,omitempty"`
}

type baseState struct {
	heap     Heap
	globals  map[*ssa.Global]uint64
	funcs    map[*ssa.Function]uint64
	strs     map[string]uint64
	typeBlks *typeutil.Map
	pools    map[uint64]*PoolState
	mutexes  map[uint64]bool
	allocSeq int
	nvars    int
}

func (P *Program) findFunc(name string) *ssa.Function {
	i := strings.LastIndex(name, ".")
	if i < 0 {
		return nil
	}
	pkg := P.pkgs[name[:i]]
	if pkg == nil {
		return nil
	}
	return pkg.Func(name[i+1:])
}

func newMachine(P *Program, ctx *Ctx, solver *Solver, cfg *JobCfg, stats *Stats) *Machine {
	m := &Machine{P: P, ctx: ctx, solver: solver, cfg: cfg, stats: stats}
	m.heap.next = heapStart
	m.known = map[int]*Term{}
	m.globals = map[*ssa.Global]uint64{}
	m.funcs = map[*ssa.Function]uint64{}
	m.strs = map[string]uint64{}
	m.typeBlks = &typeutil.Map{}
	m.pools = map[uint64]*PoolState{}
	m.mutexes = map[uint64]bool{}
	m.reached = map[string]bool{}
	m.envCache = map[string]Value{}
	m.violSeen = map[string]int{}
	m.varMemo = map[int][]int{}
	m.qmemo = map[string]Result{}
	m.offCache = map[*types.Struct][]int64{}
	m.finfo = map[*ssa.Function]*funcInfo{}
	m.sizeCache = map[types.Type]int{}
	m.stepLimit = cfg.StepLimit
	m.poolPolicy = cfg.PoolPolicy
	m.allocBytes = ctx.Const(0, 64)
	m.owner = "init"
	return m
}

func (m *Machine) snapshot() *baseState {
	return &baseState{heap: Heap{blocks: append([]*Block(nil), m.heap.blocks...), next: m.heap.next},
		globals: m.globals, funcs: m.funcs, strs: m.strs, typeBlks: m.typeBlks, pools: m.pools, mutexes: m.mutexes,
		allocSeq: m.allocSeq, nvars: m.nvars}
}

func (m *Machine) restore(b *baseState, epoch int) {
	m.epoch = epoch
	m.heap = Heap{blocks: append([]*Block(nil), b.heap.blocks...), next: b.heap.next}
	m.globals = make(map[*ssa.Global]uint64, len(b.globals)+8)
	for k, v := range b.globals {
		m.globals[k] = v
	}
	m.funcs = make(map[*ssa.Function]uint64, len(b.funcs)+8)
	for k, v := range b.funcs {
		m.funcs[k] = v
	}
	m.strs = make(map[string]uint64, len(b.strs)+8)
	for k, v := range b.strs {
		m.strs[k] = v
	}
	m.typeBlks = &typeutil.Map{}
	b.typeBlks.Iterate(func(k typesType, v interface{}) { m.typeBlks.Set(k, v) })
	m.pools = make(map[uint64]*PoolState, len(b.pools))
	for k, v := range b.pools {
		m.pools[k] = v
	}
	m.mutexes = make(map[uint64]bool, len(b.mutexes))
	for k, v := range b.mutexes {
		m.mutexes[k] = v
	}
	m.allocSeq = b.allocSeq
	m.nvars = b.nvars
	m.pc = nil
	m.known = map[int]*Term{}
	m.cursor = 0
	m.trace = nil
	m.pending = nil
	m.nondets = nil
	m.steps = 0
	m.depth = 0
	m.callstack = nil
	m.violations = nil
	m.notes = nil
	m.frozenOn = false
	m.owner = "harness"
	m.poolPolicy = m.cfg.PoolPolicy
	m.allocBytes = m.ctx.Const(0, 64)
	m.allocTrack, m.allocEvents, m.allocSites = false, 0, nil
	m.lastPanic = ""
	m.phase = ""
	m.witnesses = []witness{{}}
	m.envCache = map[string]Value{}
	m.lastModel = nil
}

// runInits executes the package initialisers we model from source.
func (m *Machine) runInits() {
	for _, path := range m.P.initPkgs {
		pkg := m.P.pkgs[path]
		if pkg == nil {
			continue
		}
		m.runPkgInit(pkg)
	}
}

func (m *Machine) runPkgInit(pkg *ssa.Package) {
	init := pkg.Func("init")
	if init == nil {
		return
	}
	m.callFunction(init, nil, nil)
}

// guarded runs f converting path-control panics into a status.
func (m *Machine) guarded(f func()) (status string, msg string) {
	defer func() {
		if r := recover(); r != nil {
			switch x := r.(type) {
			case *pathEnd:
				status, msg = x.status, x.msg
			case *GuestPanic:
				status, msg = "panic", x.msg+" @ "+x.site
			default:
				status = "internal"
				msg = fmt.Sprintf("%v\n%s", r, debug.Stack())
			}
		}
	}()
	f()
	return "ok", ""
}

func runJob(P *Program, job *Job) (res *JobResult) {
	start := time.Now()
	job.Cfg.defaults()
	res = &JobResult{ID: job.ID, Entry: job.Entry, PathStatus: map[string]int{}, Models: map[string]int{}}
	defer func() {
		if r := recover(); r != nil {
			res.Error = fmt.Sprintf("engine panic: %v\n%s", r, debug.Stack())
		}
		res.WallS = time.Since(start).Seconds()
	}()
	entry := P.findFunc(job.Entry)
	if entry == nil {
		res.Error = "entry not found: " + job.Entry
		return
	}
	ctx := NewCtx()
	solver, err := NewSolver(ctx, job.Cfg.Solver, job.Cfg.SolverTimeoutMs)
	if err != nil {
		res.Error = "solver: " + err.Error()
		return
	}
	defer solver.Close()
	if lf := os.Getenv("GOSYM_SMTLOG"); lf != "" {
		f, _ := os.Create(fmt.Sprintf("%s.%s.smt2", lf, strings.NewReplacer("/", "_", ">", "_", ":", "_").Replace(job.ID)))
		if f != nil {
			defer f.Close()
			solver.Log = f
		}
	}
	stats := &Stats{Funcs: map[string]bool{}, ModelsHit: map[string]int{}}
	m := newMachine(P, ctx, solver, &job.Cfg, stats)
	// ---- base state: package inits + optional setup, must be decision-free ----
	m.inBase = true
	st, msg := m.guarded(func() {
		m.runInits()
		// optional harness hook declaring the lock discipline of frugal's process-wide caches
		if gf := P.findFunc("github.com/cloudwego/frugal/internal/reflect.VerifGuards"); gf != nil {
			m.callFunction(gf, nil, nil)
		}
		if job.Setup != "" {
			sf := P.findFunc(job.Setup)
			if sf == nil {
				panic(&pathEnd{"unsupported", "setup not found: " + job.Setup})
			}
			m.owner = "setup"
			m.callFunction(sf, nil, nil)
		}
	})
	if st == "panic" {
		// a Go panic while registering the types (setup) is a violation witnessed without any symbolic input
		res.Violations = []Violation{{Kind: "panic", Label: "registration/setup panics: " + msg, Site: "setup", Phase: "setup", Nondets: []NondetVal{}}}
		res.Paths = 1
		res.PathStatus["panic"] = 1
		for _, want := range job.Reach {
			res.Reached = append(res.Reached, want) // the vacuity guard does not apply: nothing after the panic is reachable
		}
		return
	}
	if st != "ok" {
		res.Error = "base state: " + st + ": " + msg
		return
	}
	if len(m.trace) > 0 {
		res.Error = "base state made symbolic decisions"
		return
	}
	m.inBase = false
	// monitor violations during the decision-free setup (e.g. lock discipline while registering) have no symbolic witness
	for _, v := range m.violations {
		v.Phase = "setup"
		v.Nondets = []NondetVal{}
		res.Violations = append(res.Violations, v)
	}
	base := m.snapshot()
	// ---- path exploration (DFS over decision prefixes) ----
	work := []pendingPath{{}}
	reached := map[string]bool{}
	inconc := map[string]bool{}
	deadline := start.Add(time.Duration(job.Cfg.TimeoutS) * time.Second)
	if !globalDeadline.IsZero() && globalDeadline.Before(deadline) {
		deadline = globalDeadline
	}
	seenViol := map[string]bool{}
	epoch := 1
	for len(work) > 0 {
		if res.Paths >= job.Cfg.MaxPaths {
			inconc[fmt.Sprintf("path limit %d reached with %d prefixes pending", job.Cfg.MaxPaths, len(work))] = true
			break
		}
		if time.Now().After(deadline) {
			inconc[fmt.Sprintf("time limit %ds reached with %d prefixes pending", job.Cfg.TimeoutS, len(work))] = true
			break
		}
		pp := work[len(work)-1]
		work = work[:len(work)-1]
		epoch++
		m.restore(base, epoch)
		m.prefix = pp.prefix
		if pp.wit != nil {
			m.witnesses = append(m.witnesses, pp.wit)
		}
		m.reached = map[string]bool{}
		m.observed = nil
		if job.Fixed != nil || job.FixedSeed != 0 {
			m.fixedSeed = job.FixedSeed
			m.fixed = job.Fixed
			if len(m.fixed) == 0 {
				m.fixed = []NondetVal{}
			}
			m.fixedPos = 0
		}
		status, msg := m.guarded(func() {
			m.callFunction(entry, nil, nil)
		})
		res.Paths++
		if m.steps > res.Steps {
			res.Steps = m.steps
		}
		if len(m.nondets) > res.Nondets {
			res.Nondets = len(m.nondets)
		}
		switch status {
		case "panic":
			// a Go panic escaping the harness entry is a violation (M-go)
			m.violate("panic", msg, nil)
		case "unsupported", "steplimit", "internal":
			inconc[status+": "+msg] = true
		}
		res.PathStatus[status]++
		if status == "ok" || status == "panic" || status == "stop" || status == "fault" {
			for k := range m.reached {
				reached[k] = true
			}
		}
		for _, n := range m.notes {
			inconc[n] = true
		}
		for _, v := range m.violations {
			key := v.Kind + "|" + v.Label
			if seenViol[key] && len(res.Violations) >= 50 {
				continue
			}
			seenViol[key] = true
			if len(res.Violations) < 200 {
				res.Violations = append(res.Violations, v)
			}
		}
		work = append(work, m.pending...)
		if job.Fixed != nil || job.FixedSeed != 0 {
			res.Observed = m.observed
			res.FailedChecks = append(res.FailedChecks, "status:"+status)
			for _, v := range m.violations {
				res.FailedChecks = append(res.FailedChecks, v.Kind+":"+v.Label)
			}
		}
		if res.Paths == 1 {
			for _, n := range m.nondets {
				if len(res.Sample) < 40 {
					res.Sample = append(res.Sample, n.name+":"+n.kind)
				}
			}
		}
	}
	for k := range reached {
		res.Reached = append(res.Reached, k)
	}
	sort.Strings(res.Reached)
	for _, want := range job.Reach {
		if !reached[want] {
			res.MissingReach = append(res.MissingReach, want)
		}
	}
	for k := range inconc {
		res.Inconclusive = append(res.Inconclusive, k)
	}
	sort.Strings(res.Inconclusive)
	res.Queries, res.Sat, res.Unsat, res.Unknown = solver.Queries, solver.NSat, solver.NUnsat, solver.NUnknown
	res.SolverErrors = solver.Errors
	res.SolverS = solver.Time.Seconds()
	res.Checks = stats.Checks
	res.Branches = stats.Branches
	res.WitnessHits = stats.WitnessHits
	res.ChecksRewrite = stats.ChecksRewrite
	res.ChecksSolver = stats.ChecksSolver
	res.MemoHits = stats.MemoHits
	for f := range stats.Funcs {
		res.Funcs = append(res.Funcs, f)
	}
	sort.Strings(res.Funcs)
	res.Models = stats.ModelsHit
	return
}
