package main

import (
	"fmt"
	"go/constant"
	"go/token"
	"go/types"
	"math"
	"strings"

	"golang.org/x/tools/go/ssa"
)

type deferred struct {
	fn   Value // closure address (*Term) or nil
	sfn  *ssa.Function
	bi   *ssa.Builtin
	inv  *types.Func // invoke-mode method
	args []Value
}

type funcInfo struct {
	name   string
	model  Model
	skip   bool
	noBody bool
	index  map[ssa.Value]int
	nvals  int
	// escIndirect: heap-marked Allocs whose address is an argument of a call through a func value loaded from memory:
	// gc's escape analysis moves such a local to the heap whatever else happens (arguments of unknown callees escape)
	escIndirect map[*ssa.Alloc]string
}

func (m *Machine) info(fn *ssa.Function) *funcInfo {
	if fi, ok := m.finfo[fn]; ok {
		return fi
	}
	fi := &funcInfo{name: fn.String()}
	if fn.Synthetic == "package initializer" && fn.Pkg != nil && !m.P.initSet[fn.Pkg.Pkg.Path()] {
		fi.skip = true
	}
	if mod, ok := m.P.models[fi.name]; ok {
		fi.model = mod
	} else if fn.Blocks == nil {
		if mod, ok := m.P.models["*."+fn.Name()]; ok {
			fi.model = mod
		} else {
			fi.noBody = true
		}
	} else if mod := m.modelByPattern(fn); mod != nil {
		fi.model = mod
	}
	if fi.model != nil && allocatingCalls[fi.name] {
		inner, nm := fi.model, fi.name
		fi.model = func(m *Machine, fr *Frame, a []Value) Value {
			m.allocEvent("call of " + nm)
			return inner(m, fr, a)
		}
	} else if fi.model != nil && fn.Blocks == nil && fn.Name() == "mallocgc" {
		inner := fi.model
		fi.model = func(m *Machine, fr *Frame, a []Value) Value {
			m.allocEvent("runtime.mallocgc")
			return inner(m, fr, a)
		}
	}
	if fi.model == nil && !fi.noBody {
		fi.index = map[ssa.Value]int{}
		n := 0
		for _, p := range fn.Params {
			fi.index[p] = n
			n++
		}
		for _, fv := range fn.FreeVars {
			fi.index[fv] = n
			n++
		}
		for _, b := range fn.Blocks {
			for _, ins := range b.Instrs {
				if v, ok := ins.(ssa.Value); ok {
					fi.index[v] = n
					n++
				}
			}
		}
		fi.nvals = n
		fi.escIndirect = escapingViaIndirectCall(fn)
	}
	m.finfo[fn] = fi
	return fi
}

// escapingViaIndirectCall: see funcInfo.escIndirect. The address may reach the call directly or through conversions
// (unsafe.Pointer(&v), type changes). Calls whose callee is a function, builtin, closure literal or interface method are
// not counted (they can be inlined / devirtualised, which may keep the local on the stack).
func escapingViaIndirectCall(fn *ssa.Function) map[*ssa.Alloc]string {
	var out map[*ssa.Alloc]string
	origin := func(v ssa.Value) *ssa.Alloc {
		for i := 0; i < 8; i++ {
			switch x := v.(type) {
			case *ssa.Alloc:
				if x.Heap {
					return x
				}
				return nil
			case *ssa.Convert:
				v = x.X
			case *ssa.ChangeType:
				v = x.X
			default:
				return nil
			}
		}
		return nil
	}
	loaded := func(v ssa.Value) bool {
		switch x := v.(type) {
		case *ssa.UnOp:
			if x.Op != token.MUL {
				return false
			}
			switch x.X.(type) {
			case *ssa.FieldAddr, *ssa.IndexAddr:
				return true
			}
		}
		return false
	}
	for _, b := range fn.Blocks {
		for _, ins := range b.Instrs {
			var cc *ssa.CallCommon
			switch x := ins.(type) {
			case *ssa.Call:
				cc = &x.Call
			case *ssa.Defer:
				cc = &x.Call
			case *ssa.Go:
				cc = &x.Call
			}
			if cc == nil || cc.IsInvoke() || !loaded(cc.Value) {
				continue
			}
			for _, a := range cc.Args {
				if al := origin(a); al != nil {
					if out == nil {
						out = map[*ssa.Alloc]string{}
					}
					out[al] = "local " + al.Comment + " in " + fn.Name() + " moved to heap: its address is passed to a call through a func value loaded from memory"
				}
			}
		}
	}
	return out
}

// allocatingCalls: modelled library functions that allocate on the heap on every call (C18 monitor).
var allocatingCalls = map[string]bool{
	"reflect.New": true, "reflect.MakeMap": true, "reflect.MakeMapWithSize": true,
	"fmt.Sprintf": true, "fmt.Sprint": true, "fmt.Errorf": true, "errors.New": true,
	"strings.Split": true, "strings.Join": true, "sort.Slice": true,
}

type envT struct {
	vals []Value
	idx  map[ssa.Value]int
}

func (e *envT) set(k ssa.Value, v Value) { e.vals[e.idx[k]] = v }

type Frame struct {
	fn        *ssa.Function
	env       envT
	defers    []deferred
	panicking *GuestPanic
	recovered bool
	results   []Value
	caller    *Frame
}

type Model func(m *Machine, fr *Frame, args []Value) Value

// ---------- values of operands ----------

func (m *Machine) constValue(k *ssa.Const) Value {
	c := m.ctx
	t := k.Type()
	if k.Value == nil {
		return m.zero(t)
	}
	switch u := t.Underlying().(type) {
	case *types.Basic:
		info := u.Info()
		switch {
		case info&types.IsBoolean != 0:
			return c.Bool(constant.BoolVal(k.Value))
		case info&types.IsString != 0:
			return m.mkString(constant.StringVal(k.Value))
		case info&types.IsInteger != 0:
			w := m.width(t)
			if v, ok := constant.Int64Val(constant.ToInt(k.Value)); ok {
				return c.Const(uint64(v), w)
			}
			v, _ := constant.Uint64Val(constant.ToInt(k.Value))
			return c.Const(v, w)
		case info&types.IsFloat != 0:
			f, _ := constant.Float64Val(k.Value)
			if u.Kind() == types.Float32 {
				return c.Const(uint64(math.Float32bits(float32(f))), 32)
			}
			return c.Const(math.Float64bits(f), 64)
		}
		if u.Kind() == types.UnsafePointer {
			return c.Const(0, 64)
		}
	}
	m.unsupported("constant %s of type %s", k, t)
	return nil
}

func (m *Machine) globalAddr(g *ssa.Global) *Term {
	if a, ok := m.globals[g]; ok {
		return m.ctx.Const(a, 64)
	}
	et := g.Type().(*types.Pointer).Elem()
	b := m.allocObj(et, 1, "global "+g.String())
	b.owner = "global"
	m.globals[g] = b.base
	return m.ctx.Const(b.base, 64)
}

func (m *Machine) funcAddr(fn *ssa.Function) *Term {
	if a, ok := m.funcs[fn]; ok {
		return m.ctx.Const(a, 64)
	}
	b := m.newBlock(8, 8, "func "+fn.String())
	b.kind = bkFunc
	b.fn = fn
	b.readonly = true
	b.owner = "const"
	m.funcs[fn] = b.base
	return m.ctx.Const(b.base, 64)
}

func (m *Machine) get(fr *Frame, v ssa.Value) Value {
	switch x := v.(type) {
	case *ssa.Const:
		return m.constValue(x)
	case *ssa.Global:
		return m.globalAddr(x)
	case *ssa.Function:
		return m.funcAddr(x)
	case *ssa.Builtin:
		m.unsupported("builtin %s as value", x.Name())
	}
	i, ok := fr.env.idx[v]
	if !ok || fr.env.vals[i] == nil {
		if ok {
			if _, isCall := v.(*ssa.Call); isCall {
				return nil
			}
		}
		panic(fmt.Sprintf("internal: no value for %s (%T) in %s", v.Name(), v, fr.fn))
	}
	return fr.env.vals[i]
}

func (m *Machine) term(fr *Frame, v ssa.Value) *Term {
	x := m.get(fr, v)
	t, ok := x.(*Term)
	if !ok {
		panic(fmt.Sprintf("internal: %s is not scalar (%T) in %s", v.Name(), x, fr.fn))
	}
	return t
}

// ---------- calls ----------

func (m *Machine) callFunction(fn *ssa.Function, args []Value, caller *Frame) Value {
	fi := m.info(fn)
	if fi.skip {
		return nil // initialisers of packages outside the executed set are not run (their globals are modelled)
	}
	if fi.model != nil {
		m.stats.ModelsHit[fi.name]++
		return fi.model(m, caller, args)
	}
	if fi.noBody {
		m.unsupported("function without body: %s", fi.name)
	}
	m.stats.Funcs[fi.name] = true
	m.depth++
	if m.depth > m.maxDepth {
		m.maxDepth = m.depth
	}
	if m.depth > m.cfg.MaxDepth {
		panic(&pathEnd{"steplimit", fmt.Sprintf("call depth %d exceeded in %s", m.cfg.MaxDepth, fi.name)})
	}
	m.callstack = append(m.callstack, fn.Name())
	fr := &Frame{fn: fn, env: envT{vals: make([]Value, fi.nvals), idx: fi.index}, caller: caller}
	for i, p := range fn.Params {
		fr.env.set(p, args[i])
	}
	res := m.run(fr, args[len(fn.Params):])
	m.callstack = m.callstack[:len(m.callstack)-1]
	m.depth--
	return res
}

// run executes the frame; extra are free-variable bindings.
func (m *Machine) run(fr *Frame, bindings []Value) (result Value) {
	fn := fr.fn
	for i, fv := range fn.FreeVars {
		fr.env.set(fv, bindings[i])
	}
	defer func() {
		if r := recover(); r != nil {
			gp, ok := r.(*GuestPanic)
			if !ok {
				panic(r)
			}
			// guest panic: run deferred calls; one of them may recover
			fr.panicking = gp
			m.runDefers(fr)
			if fr.recovered {
				fr.panicking = nil
				if fn.Recover != nil {
					result = m.execFrom(fr, fn.Recover, nil)
				} else {
					result = m.zeroResults(fn)
				}
				return
			}
			panic(gp)
		}
	}()
	return m.execFrom(fr, fn.Blocks[0], nil)
}

func (m *Machine) zeroResults(fn *ssa.Function) Value {
	res := fn.Signature.Results()
	switch res.Len() {
	case 0:
		return nil
	case 1:
		return m.zero(res.At(0).Type())
	}
	return m.zero(res)
}

func (m *Machine) runDefers(fr *Frame) {
	for len(fr.defers) > 0 {
		d := fr.defers[len(fr.defers)-1]
		fr.defers = fr.defers[:len(fr.defers)-1]
		m.callDeferred(fr, d)
	}
}

func (m *Machine) callDeferred(fr *Frame, d deferred) {
	switch {
	case d.bi != nil:
		m.callBuiltin(fr, d.bi, d.args, nil)
	case d.sfn != nil:
		m.callFunctionDeferred(fr, d.sfn, d.args)
	case d.inv != nil:
		m.invoke(fr, d.inv, d.args[0], d.args[1:])
	default:
		m.callClosure(fr, d.fn.(*Term), d.args)
	}
}

// callFunctionDeferred: deferred function runs with access to the panicking frame (for recover()).
func (m *Machine) callFunctionDeferred(fr *Frame, fn *ssa.Function, args []Value) {
	m.callFunction(fn, args, fr)
}

func (m *Machine) callClosure(fr *Frame, f *Term, args []Value) Value {
	f = m.simp(f)
	var addr uint64
	if f.IsConst() {
		addr = f.Val
	} else {
		addr = m.concretize(f, "function value")
	}
	if addr == 0 {
		panic(&GuestPanic{runtime: true, msg: "call of nil function", site: m.site()})
	}
	b := m.heap.find(addr)
	if b == nil || b.kind != bkFunc || b.base != addr {
		m.violate("fault", fmt.Sprintf("call through non-function pointer %#x", addr), nil)
		panic(&pathEnd{"fault", "bad function pointer"})
	}
	all := append(append([]Value(nil), args...), b.bindings...)
	return m.callFunction(b.fn, all, fr)
}

func (m *Machine) invoke(fr *Frame, method *types.Func, recv Value, args []Value) Value {
	ifc := recv.(Agg)
	tw := m.simp(ifc[0].(*Term))
	if !tw.IsConst() {
		m.unsupported("invoke on symbolic dynamic type")
	}
	if tw.Val == 0 {
		panic(&GuestPanic{runtime: true, msg: "invalid memory address or nil pointer dereference (nil interface method call " + method.Name() + ")", site: m.site()})
	}
	dt := m.typeAt(tw.Val)
	ms := m.P.prog.MethodSets.MethodSet(dt)
	sel := ms.Lookup(method.Pkg(), method.Name())
	if sel == nil {
		m.unsupported("method %s not found on %s", method.Name(), dt)
	}
	fn := m.P.prog.MethodValue(sel)
	if fn == nil {
		m.unsupported("no SSA for method %s on %s", method.Name(), dt)
	}
	rv := m.ifaceData(dt, ifc[1].(*Term))
	return m.callFunction(fn, append([]Value{rv}, args...), fr)
}

// ifaceData converts the interface data word into a value of dynamic type dt.
func (m *Machine) ifaceData(dt types.Type, data *Term) Value {
	if isDirectIface(dt) {
		return m.wrapDirect(dt, data)
	}
	return m.load(data, dt)
}

func (m *Machine) wrapDirect(dt types.Type, data *Term) Value {
	switch u := dt.Underlying().(type) {
	case *types.Struct:
		return Agg{m.wrapDirect(u.Field(0).Type(), data)}
	case *types.Array:
		return Agg{m.wrapDirect(u.Elem(), data)}
	}
	return data
}

func (m *Machine) unwrapDirect(v Value) *Term {
	for {
		if a, ok := v.(Agg); ok {
			v = a[0]
			continue
		}
		return v.(*Term)
	}
}

func (m *Machine) makeIface(t types.Type, v Value) Value {
	c := m.ctx
	if _, ok := t.Underlying().(*types.Interface); ok {
		return v // already an interface
	}
	tw := c.Const(m.typeAddr(t), 64)
	if isDirectIface(t) {
		return Agg{tw, m.unwrapDirect(v)}
	}
	b := m.allocObj(t, 1, "iface box "+t.String())
	m.store(m.ptr(b), t, v)
	return Agg{tw, m.ptr(b)}
}

// ---------- the interpreter loop ----------

func (m *Machine) execFrom(fr *Frame, blk *ssa.BasicBlock, prev *ssa.BasicBlock) Value {
	for {
		// phis first (parallel assignment)
		nphi := 0
		for _, ins := range blk.Instrs {
			if _, ok := ins.(*ssa.Phi); ok {
				nphi++
			} else {
				break
			}
		}
		if nphi > 0 {
			idx := -1
			for i, p := range blk.Preds {
				if p == prev {
					idx = i
					break
				}
			}
			if idx < 0 {
				panic("internal: phi without predecessor")
			}
			vals := make([]Value, nphi)
			for i := 0; i < nphi; i++ {
				vals[i] = m.get(fr, blk.Instrs[i].(*ssa.Phi).Edges[idx])
			}
			for i := 0; i < nphi; i++ {
				fr.env.set(blk.Instrs[i].(*ssa.Phi), vals[i])
			}
		}
		var next *ssa.BasicBlock
		for _, ins := range blk.Instrs[nphi:] {
			m.steps++
			if m.steps > m.stepLimit {
				panic(&pathEnd{"steplimit", fmt.Sprintf("step limit %d exceeded", m.stepLimit)})
			}
			switch x := ins.(type) {
			case *ssa.If:
				if m.branch(m.term(fr, x.Cond)) {
					next = blk.Succs[0]
				} else {
					next = blk.Succs[1]
				}
			case *ssa.Jump:
				next = blk.Succs[0]
			case *ssa.Return:
				switch len(x.Results) {
				case 0:
					return nil
				case 1:
					return m.get(fr, x.Results[0])
				}
				a := make(Agg, len(x.Results))
				for i, r := range x.Results {
					a[i] = m.get(fr, r)
				}
				return a
			case *ssa.Panic:
				v := m.get(fr, x.X)
				gp := &GuestPanic{val: v, site: m.site()}
				gp.msg = m.describePanic(v)
				panic(gp)
			default:
				m.exec(fr, ins)
			}
		}
		if next == nil {
			panic("internal: block without terminator")
		}
		prev, blk = blk, next
	}
}

func (m *Machine) describePanic(v Value) string {
	a, ok := v.(Agg)
	if !ok {
		return "?"
	}
	tw := m.simp(a[0].(*Term))
	if !tw.IsConst() || tw.Val == 0 {
		return "panic(nil)"
	}
	dt := m.typeAt(tw.Val)
	if isString(dt) {
		if s, ok := m.goString(m.load(a[1].(*Term), dt)); ok {
			return "string: " + s
		}
		return "string: <symbolic>"
	}
	return "value of type " + dt.String()
}

func (m *Machine) exec(fr *Frame, ins ssa.Instruction) {
	c := m.ctx
	switch x := ins.(type) {
	case *ssa.DebugRef:
	case *ssa.Alloc:
		et := x.Type().(*types.Pointer).Elem()
		if m.allocTrack {
			if why, ok := m.info(fr.fn).escIndirect[x]; ok {
				m.allocEvent(why)
			}
		}
		b := m.allocObj(et, 1, "alloc "+x.Comment+" in "+fr.fn.Name())
		fr.env.set(x, m.ptr(b))
	case *ssa.Store:
		m.store(m.term(fr, x.Addr), x.Val.Type(), m.get(fr, x.Val))
	case *ssa.UnOp:
		fr.env.set(x, m.unop(fr, x))
	case *ssa.BinOp:
		fr.env.set(x, m.binop(x.Op, x.X.Type(), x.Y.Type(), m.get(fr, x.X), m.get(fr, x.Y)))
	case *ssa.Convert:
		fr.env.set(x, m.convert(x.X.Type(), x.Type(), m.get(fr, x.X)))
	case *ssa.ChangeType:
		fr.env.set(x, m.get(fr, x.X))
	case *ssa.ChangeInterface:
		fr.env.set(x, m.get(fr, x.X))
	case *ssa.MakeInterface:
		fr.env.set(x, m.makeIface(x.X.Type(), m.get(fr, x.X)))
	case *ssa.SliceToArrayPointer:
		s := m.get(fr, x.X).(Agg)
		n := x.Type().(*types.Pointer).Elem().Underlying().(*types.Array).Len()
		if !m.branch(c.Ule(c.Const(uint64(n), 64), s[1].(*Term))) {
			panic(&GuestPanic{runtime: true, msg: "cannot convert slice to array pointer: length too short", site: m.site()})
		}
		fr.env.set(x, s[0])
	case *ssa.FieldAddr:
		st := x.X.Type().Underlying().(*types.Pointer).Elem().Underlying().(*types.Struct)
		base := m.term(fr, x.X)
		if bt := m.simp(base); bt.IsConst() && bt.Val < nilPage {
			panic(&GuestPanic{runtime: true, msg: "invalid memory address or nil pointer dereference", site: m.site()})
		}
		fr.env.set(x, m.addOff(base, m.fieldOffsets(st)[x.Field]))
	case *ssa.Field:
		fr.env.set(x, m.get(fr, x.X).(Agg)[x.Field])
	case *ssa.IndexAddr:
		fr.env.set(x, m.indexAddr(fr, x))
	case *ssa.Index:
		fr.env.set(x, m.index(fr, x))
	case *ssa.Slice:
		fr.env.set(x, m.sliceOp(fr, x))
	case *ssa.Extract:
		fr.env.set(x, m.get(fr, x.Tuple).(Agg)[x.Index])
	case *ssa.Call:
		fr.env.set(x, m.call(fr, &x.Call))
	case *ssa.Defer:
		fr.defers = append(fr.defers, m.mkDeferred(fr, &x.Call))
	case *ssa.RunDefers:
		m.runDefers(fr)
	case *ssa.MakeClosure:
		fn := x.Fn.(*ssa.Function)
		b := m.newBlock(8, 8, "closure "+fn.String())
		b.kind = bkFunc
		b.fn = fn
		b.owner = m.owner
		for _, bd := range x.Bindings {
			b.bindings = append(b.bindings, m.get(fr, bd))
		}
		fr.env.set(x, m.ptr(b))
	case *ssa.MakeSlice:
		et := x.Type().Underlying().(*types.Slice).Elem()
		ln := m.toInt64(m.term(fr, x.Len), x.Len.Type())
		cp := m.toInt64(m.term(fr, x.Cap), x.Cap.Type())
		n := int(int64(m.concretize(ln, "make len")))
		k := int(int64(m.concretize(cp, "make cap")))
		if n < 0 || k < n {
			panic(&GuestPanic{runtime: true, msg: "makeslice: len out of range", site: m.site()})
		}
		if k > m.cfg.MaxAlloc {
			m.unsupported("make([]T, %d) too large for the engine", k)
		}
		_, lenConst := x.Len.(*ssa.Const)
		_, capConst := x.Cap.(*ssa.Const)
		if !lenConst || !capConst {
			m.allocEvent("make([]" + et.String() + ", n) with a non-constant size")
		}
		b := m.allocObj(et, k, "make([]"+et.String()+")")
		fr.env.set(x, Agg{m.ptr(b), c.Const(uint64(n), 64), c.Const(uint64(k), 64)})
	case *ssa.MakeMap:
		fr.env.set(x, m.newMap(x.Type()))
	case *ssa.MapUpdate:
		mt := x.Map.Type().Underlying().(*types.Map)
		m.mapUpdate(m.term(fr, x.Map), mt, m.get(fr, x.Key), m.get(fr, x.Value))
	case *ssa.Lookup:
		fr.env.set(x, m.lookup(fr, x))
	case *ssa.Range:
		fr.env.set(x, m.rangeInit(fr, x))
	case *ssa.Next:
		fr.env.set(x, m.rangeNext(fr, x))
	case *ssa.TypeAssert:
		fr.env.set(x, m.typeAssert(fr, x))
	case *ssa.Go:
		m.allocEvent("go statement")
		m.goStmt(fr, x)
	default:
		m.unsupported("instruction %T: %s", ins, ins)
	}
}

func (m *Machine) toInt64(t *Term, typ types.Type) *Term {
	if t.W == 64 {
		return t
	}
	if isSigned(typ) {
		return m.ctx.SignExt(t, 64)
	}
	return m.ctx.ZeroExt(t, 64)
}

func (m *Machine) unop(fr *Frame, x *ssa.UnOp) Value {
	c := m.ctx
	switch x.Op {
	case token.MUL:
		return m.load(m.term(fr, x.X), x.Type())
	case token.NOT:
		return c.Not(m.term(fr, x.X))
	case token.SUB:
		if isFloat(x.Type()) {
			v := m.term(fr, x.X)
			return c.BvXor(v, c.Const(uint64(1)<<uint(v.W-1), v.W))
		}
		return c.BvNeg(m.term(fr, x.X))
	case token.XOR:
		return c.BvNot(m.term(fr, x.X))
	}
	m.unsupported("unary op %s", x.Op)
	return nil
}

func (m *Machine) indexAddr(fr *Frame, x *ssa.IndexAddr) Value {
	c := m.ctx
	idx := m.toInt64(m.term(fr, x.Index), x.Index.Type())
	var base, ln *Term
	var et types.Type
	switch t := x.X.Type().Underlying().(type) {
	case *types.Slice:
		s := m.get(fr, x.X).(Agg)
		base, ln = s[0].(*Term), s[1].(*Term)
		et = t.Elem()
	case *types.Pointer:
		at := t.Elem().Underlying().(*types.Array)
		base = m.term(fr, x.X)
		ln = c.Const(uint64(at.Len()), 64)
		et = at.Elem()
		if bt := m.simp(base); bt.IsConst() && bt.Val < nilPage {
			panic(&GuestPanic{runtime: true, msg: "invalid memory address or nil pointer dereference", site: m.site()})
		}
	default:
		m.unsupported("IndexAddr on %s", x.X.Type())
	}
	if !m.branch(c.Ult(idx, ln)) {
		panic(&GuestPanic{runtime: true, msg: "index out of range", site: m.site()})
	}
	es := uint64(m.sizeof(et))
	return c.BvAdd(base, c.BvMul(idx, c.Const(es, 64)))
}

func (m *Machine) index(fr *Frame, x *ssa.Index) Value {
	c := m.ctx
	idx := m.toInt64(m.term(fr, x.Index), x.Index.Type())
	switch t := x.X.Type().Underlying().(type) {
	case *types.Array:
		a := m.get(fr, x.X).(Agg)
		if !m.branch(c.Ult(idx, c.Const(uint64(len(a)), 64))) {
			panic(&GuestPanic{runtime: true, msg: "index out of range", site: m.site()})
		}
		i := m.concretize(idx, "array index")
		return a[i]
	case *types.Basic: // string
		s := m.get(fr, x.X).(Agg)
		if !m.branch(c.Ult(idx, s[1].(*Term))) {
			panic(&GuestPanic{runtime: true, msg: "index out of range", site: m.site()})
		}
		return m.loadByteAt(s[0].(*Term), idx)
	default:
		m.unsupported("Index on %s", t)
	}
	return nil
}

// loadByteAt loads base[idx] where idx may be symbolic (ITE chain over the block).
func (m *Machine) loadByteAt(base, idx *Term) *Term {
	return m.loadIndexed(m.ctx.BvAdd(base, idx), 1)
}

func (m *Machine) sliceOp(fr *Frame, x *ssa.Slice) Value {
	c := m.ctx
	var base, ln, cp *Term
	var es int
	isStr := false
	switch t := x.X.Type().Underlying().(type) {
	case *types.Slice:
		s := m.get(fr, x.X).(Agg)
		base, ln, cp = s[0].(*Term), s[1].(*Term), s[2].(*Term)
		es = m.sizeof(t.Elem())
	case *types.Basic:
		s := m.get(fr, x.X).(Agg)
		base, ln = s[0].(*Term), s[1].(*Term)
		cp = ln
		es = 1
		isStr = true
	case *types.Pointer:
		at := t.Elem().Underlying().(*types.Array)
		base = m.term(fr, x.X)
		ln = c.Const(uint64(at.Len()), 64)
		cp = ln
		es = m.sizeof(at.Elem())
	default:
		m.unsupported("Slice on %s", x.X.Type())
	}
	lo := c.Const(0, 64)
	if x.Low != nil {
		lo = m.toInt64(m.term(fr, x.Low), x.Low.Type())
	}
	hi := ln
	if x.High != nil {
		hi = m.toInt64(m.term(fr, x.High), x.High.Type())
	}
	mx := cp
	if x.Max != nil {
		mx = m.toInt64(m.term(fr, x.Max), x.Max.Type())
	}
	// 0 <= lo <= hi <= max <= cap   (unsigned compares catch negatives)
	okc := c.And(c.And(c.Ule(lo, hi), c.Ule(hi, mx)), c.Ule(mx, cp))
	if isStr {
		okc = c.And(c.Ule(lo, hi), c.Ule(hi, ln))
	}
	if !m.branch(okc) {
		panic(&GuestPanic{runtime: true, msg: "slice bounds out of range", site: m.site()})
	}
	nb := c.BvAdd(base, c.BvMul(lo, c.Const(uint64(es), 64)))
	nl := c.BvSub(hi, lo)
	if isStr {
		return Agg{nb, nl}
	}
	nc := c.BvSub(mx, lo)
	// Go: if the resulting cap is 0 the pointer stays at base (no past-the-end pointer)
	return Agg{nb, nl, nc}
}

func (m *Machine) mkDeferred(fr *Frame, cc *ssa.CallCommon) deferred {
	d := deferred{}
	for _, a := range cc.Args {
		d.args = append(d.args, m.get(fr, a))
	}
	if cc.IsInvoke() {
		d.inv = cc.Method
		d.args = append([]Value{m.get(fr, cc.Value)}, d.args...)
		return d
	}
	switch f := cc.Value.(type) {
	case *ssa.Builtin:
		d.bi = f
	case *ssa.Function:
		d.sfn = f
	default:
		d.fn = m.get(fr, cc.Value)
	}
	return d
}

func (m *Machine) call(fr *Frame, cc *ssa.CallCommon) Value {
	args := make([]Value, len(cc.Args))
	for i, a := range cc.Args {
		args[i] = m.get(fr, a)
	}
	if cc.IsInvoke() {
		return m.invoke(fr, cc.Method, m.get(fr, cc.Value), args)
	}
	switch f := cc.Value.(type) {
	case *ssa.Builtin:
		return m.callBuiltin(fr, f, args, cc)
	case *ssa.Function:
		return m.callFunction(f, args, fr)
	case *ssa.MakeClosure:
		fn := f.Fn.(*ssa.Function)
		for _, b := range f.Bindings {
			args = append(args, m.get(fr, b))
		}
		return m.callFunction(fn, args, fr)
	}
	return m.callClosure(fr, m.term(fr, cc.Value), args)
}

// ---------- binary operators ----------

func (m *Machine) binop(op token.Token, xt, yt types.Type, xv, yv Value) Value {
	c := m.ctx
	switch op {
	case token.EQL:
		return m.equal(xt, xv, yv)
	case token.NEQ:
		return c.Not(m.equal(xt, xv, yv))
	}
	if isString(xt) {
		switch op {
		case token.ADD:
			return m.concatStrings(xv.(Agg), yv.(Agg))
		case token.LSS, token.LEQ, token.GTR, token.GEQ:
			a, ok1 := m.goString(xv)
			b, ok2 := m.goString(yv)
			if !ok1 || !ok2 {
				m.unsupported("ordered comparison of symbolic strings")
			}
			switch op {
			case token.LSS:
				return c.Bool(a < b)
			case token.LEQ:
				return c.Bool(a <= b)
			case token.GTR:
				return c.Bool(a > b)
			default:
				return c.Bool(a >= b)
			}
		}
	}
	x, y := xv.(*Term), yv.(*Term)
	if isFloat(xt) {
		switch op {
		case token.LSS:
			return c.FpLt(x, y)
		case token.LEQ:
			return c.FpLe(x, y)
		case token.GTR:
			return c.FpLt(y, x)
		case token.GEQ:
			return c.FpLe(y, x)
		}
		if x.IsConst() && y.IsConst() && x.W == 64 {
			a, b := f64(x.Val), f64(y.Val)
			var r float64
			switch op {
			case token.ADD:
				r = a + b
			case token.SUB:
				r = a - b
			case token.MUL:
				r = a * b
			case token.QUO:
				r = a / b
			default:
				m.unsupported("float op %s", op)
			}
			return c.Const(math.Float64bits(r), 64)
		}
		m.unsupported("symbolic float arithmetic %s", op)
	}
	if x.W == 0 { // bool &, |
		switch op {
		case token.AND:
			return c.And(x, y)
		case token.OR:
			return c.Or(x, y)
		case token.XOR:
			return c.Not(c.Eq(x, y))
		case token.AND_NOT:
			return c.And(x, c.Not(y))
		}
	}
	signed := isSigned(xt)
	switch op {
	case token.ADD:
		return c.BvAdd(x, y)
	case token.SUB:
		return c.BvSub(x, y)
	case token.MUL:
		return c.BvMul(x, y)
	case token.QUO, token.REM:
		if !m.branch(c.Not(c.Eq(y, c.Const(0, y.W)))) {
			panic(&GuestPanic{runtime: true, msg: "integer divide by zero", site: m.site()})
		}
		if op == token.QUO {
			if signed {
				return c.BvSDiv(x, y)
			}
			return c.BvUDiv(x, y)
		}
		if signed {
			return c.BvSRem(x, y)
		}
		return c.BvURem(x, y)
	case token.AND:
		return c.BvAnd(x, y)
	case token.OR:
		return c.BvOr(x, y)
	case token.XOR:
		return c.BvXor(x, y)
	case token.AND_NOT:
		return c.BvAnd(x, c.BvNot(y))
	case token.SHL, token.SHR:
		if isSigned(yt) {
			if !m.branch(c.Sle(c.Const(0, y.W), y)) {
				panic(&GuestPanic{runtime: true, msg: "negative shift amount", site: m.site()})
			}
		}
		// bring shift count to x's width, saturating
		var cnt *Term
		if y.W > x.W {
			big := c.Ule(c.Const(uint64(x.W), y.W), y)
			cnt = c.Ite(big, c.Const(uint64(x.W), x.W), c.Extract(y, x.W-1, 0))
		} else {
			cnt = c.ZeroExt(y, x.W)
		}
		if op == token.SHL {
			return c.BvShl(x, cnt)
		}
		if signed {
			return c.BvAshr(x, cnt)
		}
		return c.BvLshr(x, cnt)
	case token.LSS:
		if signed {
			return c.Slt(x, y)
		}
		return c.Ult(x, y)
	case token.LEQ:
		if signed {
			return c.Sle(x, y)
		}
		return c.Ule(x, y)
	case token.GTR:
		if signed {
			return c.Slt(y, x)
		}
		return c.Ult(y, x)
	case token.GEQ:
		if signed {
			return c.Sle(y, x)
		}
		return c.Ule(y, x)
	}
	m.unsupported("binary op %s on %s", op, xt)
	return nil
}

// equal implements Go's == for type t.
func (m *Machine) equal(t types.Type, xv, yv Value) *Term {
	c := m.ctx
	switch u := t.Underlying().(type) {
	case *types.Basic:
		if u.Info()&types.IsString != 0 {
			return m.stringEq(xv.(Agg), yv.(Agg))
		}
		if u.Info()&types.IsFloat != 0 {
			return c.FpEq(xv.(*Term), yv.(*Term))
		}
		return c.Eq(xv.(*Term), yv.(*Term))
	case *types.Pointer, *types.Map, *types.Chan, *types.Signature:
		return c.Eq(xv.(*Term), yv.(*Term))
	case *types.Slice:
		// only comparison with nil is legal
		return c.Eq(xv.(Agg)[0].(*Term), yv.(Agg)[0].(*Term))
	case *types.Interface:
		return m.ifaceEq(xv.(Agg), yv.(Agg))
	case *types.Struct:
		r := c.True
		xa, ya := xv.(Agg), yv.(Agg)
		for i := range xa {
			r = c.And(r, m.equal(u.Field(i).Type(), xa[i], ya[i]))
		}
		return r
	case *types.Array:
		r := c.True
		xa, ya := xv.(Agg), yv.(Agg)
		for i := range xa {
			r = c.And(r, m.equal(u.Elem(), xa[i], ya[i]))
		}
		return r
	}
	m.unsupported("== on %s", t)
	return nil
}

func (m *Machine) ifaceEq(x, y Agg) *Term {
	c := m.ctx
	xt, yt := m.simp(x[0].(*Term)), m.simp(y[0].(*Term))
	if !xt.IsConst() || !yt.IsConst() {
		m.unsupported("interface comparison with symbolic dynamic type")
	}
	if xt.Val != yt.Val {
		return c.False
	}
	if xt.Val == 0 {
		return c.True
	}
	dt := m.typeAt(xt.Val)
	if isDirectIface(dt) {
		return c.Eq(x[1].(*Term), y[1].(*Term))
	}
	if !types.Comparable(dt) {
		panic(&GuestPanic{runtime: true, msg: "comparing uncomparable type " + dt.String(), site: m.site()})
	}
	return m.equal(dt, m.load(x[1].(*Term), dt), m.load(y[1].(*Term), dt))
}

func (m *Machine) stringEq(x, y Agg) *Term {
	c := m.ctx
	lx, ly := m.simp(x[1].(*Term)), m.simp(y[1].(*Term))
	leq := c.Eq(lx, ly)
	if leq.IsConst() && leq.Val == 0 {
		return c.False
	}
	var n uint64
	switch {
	case lx.IsConst():
		n = lx.Val
	case ly.IsConst():
		n = ly.Val
	default:
		if !m.branch(leq) {
			return c.False
		}
		n = m.concretize(lx, "string length in ==")
		leq = c.True
	}
	r := leq
	if n == 0 {
		return r
	}
	px, py := m.simp(x[0].(*Term)), m.simp(y[0].(*Term))
	if px == py {
		return r
	}
	// if lengths can differ we must not read the shorter one out of bounds
	if !leq.IsConst() {
		if !m.branch(leq) {
			return c.False
		}
		r = c.True
	}
	bx, ox := m.deref(px, int(n), false, "string ==")
	by, oy := m.deref(py, int(n), false, "string ==")
	for i := 0; i < int(n); {
		k := 8
		if int(n)-i < 8 {
			k = int(n) - i
		}
		r = c.And(r, c.Eq(m.rawLoad(bx, ox+i, k), m.rawLoad(by, oy+i, k)))
		if r.IsConst() && r.Val == 0 {
			return r
		}
		i += k
	}
	return r
}

func (m *Machine) concatStrings(x, y Agg) Value {
	c := m.ctx
	lx := int(m.concretize(x[1].(*Term), "string concat len"))
	ly := int(m.concretize(y[1].(*Term), "string concat len"))
	if lx == 0 {
		return y
	}
	if ly == 0 {
		return x
	}
	b := m.newBlock(lx+ly, 1, "string concat")
	b.owner = m.owner
	m.copyBytes(m.ptr(b), x[0].(*Term), lx)
	m.copyBytes(m.addOff(m.ptr(b), int64(lx)), y[0].(*Term), ly)
	return Agg{m.ptr(b), c.Const(uint64(lx+ly), 64)}
}

// ---------- conversions ----------

func (m *Machine) convert(from, to types.Type, v Value) Value {
	c := m.ctx
	fu, tu := from.Underlying(), to.Underlying()
	fb, fok := fu.(*types.Basic)
	tb, tok := tu.(*types.Basic)
	// string <-> []byte / []rune
	if tok && tb.Info()&types.IsString != 0 {
		if fok && fb.Info()&types.IsInteger != 0 {
			t := m.simp(v.(*Term))
			if !t.IsConst() {
				m.unsupported("string(symbolic rune)")
			}
			return m.mkString(string(rune(sext64(t.Val, t.W))))
		}
		if sl, ok := fu.(*types.Slice); ok {
			if m.sizeof(sl.Elem()) != 1 {
				m.unsupported("string([]rune)")
			}
			s := v.(Agg)
			n := int(m.concretize(s[1].(*Term), "string(bytes) len"))
			if n == 0 {
				return Agg{c.Const(0, 64), c.Const(0, 64)}
			}
			b := m.newBlock(n, 1, "string(bytes)")
			b.owner = m.owner
			m.copyBytes(m.ptr(b), s[0].(*Term), n)
			return Agg{m.ptr(b), c.Const(uint64(n), 64)}
		}
	}
	if sl, ok := tu.(*types.Slice); ok && fok && fb.Info()&types.IsString != 0 {
		if m.sizeof(sl.Elem()) != 1 {
			m.unsupported("[]rune(string)")
		}
		s := v.(Agg)
		n := int(m.concretize(s[1].(*Term), "[]byte(string) len"))
		b := m.allocObj(sl.Elem(), n, "[]byte(string)")
		if n > 0 {
			m.copyBytes(m.ptr(b), s[0].(*Term), n)
		}
		return Agg{m.ptr(b), c.Const(uint64(n), 64), c.Const(uint64(n), 64)}
	}
	// pointer-ish conversions
	t, isTerm := v.(*Term)
	if !isTerm {
		m.unsupported("convert %s -> %s", from, to)
	}
	if !tok {
		// unsafe.Pointer -> *T etc.
		return t
	}
	if !fok {
		return t // *T -> unsafe.Pointer
	}
	ff, tf := fb.Info()&types.IsFloat != 0, tb.Info()&types.IsFloat != 0
	switch {
	case ff && tf:
		if fb.Kind() == tb.Kind() || tb.Kind() == types.UntypedFloat {
			return t
		}
		if t.IsConst() {
			if tb.Kind() == types.Float32 {
				return c.Const(uint64(math.Float32bits(float32(f64(t.Val)))), 32)
			}
			return c.Const(math.Float64bits(float64(f32(t.Val))), 64)
		}
		m.unsupported("symbolic float width conversion")
	case ff:
		if t.IsConst() && t.W == 64 {
			return c.Const(uint64(int64(f64(t.Val))), m.width(to))
		}
		m.unsupported("symbolic float->int conversion")
	case tf:
		if t.IsConst() {
			var f float64
			if isSigned(from) {
				f = float64(sext64(t.Val, t.W))
			} else {
				f = float64(t.Val)
			}
			if tb.Kind() == types.Float32 {
				return c.Const(uint64(math.Float32bits(float32(f))), 32)
			}
			return c.Const(math.Float64bits(f), 64)
		}
		m.unsupported("symbolic int->float conversion")
	}
	tw := m.width(to)
	if t.W == 0 || tw == 0 {
		return t
	}
	if tw <= t.W {
		return c.Extract(t, tw-1, 0)
	}
	if isSigned(from) {
		return c.SignExt(t, tw)
	}
	return c.ZeroExt(t, tw)
}

// ---------- type assertions ----------

func (m *Machine) typeAssert(fr *Frame, x *ssa.TypeAssert) Value {
	c := m.ctx
	ifc := m.get(fr, x.X).(Agg)
	tw := m.simp(ifc[0].(*Term))
	if !tw.IsConst() {
		m.unsupported("type assertion on symbolic dynamic type")
	}
	var ok bool
	var res Value
	if tw.Val != 0 {
		dt := m.typeAt(tw.Val)
		if it, isI := x.AssertedType.Underlying().(*types.Interface); isI {
			ok = types.Implements(dt, it)
			if ok {
				res = ifc
			}
		} else {
			ok = types.Identical(dt, x.AssertedType)
			if ok {
				res = m.ifaceData(dt, ifc[1].(*Term))
			}
		}
	}
	if !ok {
		if !x.CommaOk {
			panic(&GuestPanic{runtime: true, msg: "interface conversion: type assertion to " + x.AssertedType.String() + " failed", site: m.site()})
		}
		res = m.zero(x.AssertedType)
	}
	if x.CommaOk {
		return Agg{res, c.Bool(ok)}
	}
	return res
}

func (m *Machine) goStmt(fr *Frame, x *ssa.Go) {
	m.unsupported("go statement outside the scheduler mode")
}

func shortPos(p *Program, pos token.Pos) string {
	if !pos.IsValid() {
		return ""
	}
	ps := p.fset.Position(pos)
	f := ps.Filename
	if i := strings.LastIndex(f, "/"); i >= 0 {
		f = f[i+1:]
	}
	return fmt.Sprintf("%s:%d", f, ps.Line)
}
