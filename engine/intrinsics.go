package main

// Harness intrinsics: functions of package .../internal/vrt are intercepted by
// name. Their Go bodies (in the overlay) implement native replay.

import (
	"fmt"
	"go/types"
	"os"
	"strings"
)

const vrtPath = "github.com/cloudwego/frugal/internal/vrt"

func registerIntrinsics(M map[string]Model) {
	I := func(name string, f Model) { M[vrtPath+"."+name] = f }

	nondet := func(kind string, w int) Model {
		return func(m *Machine, fr *Frame, a []Value) Value {
			name := m.mustGoString(a[0], "nondet name")
			if m.fixed != nil {
				return m.ctx.Const(m.nextFixed(name, kind), w)
			}
			v := m.fresh("n", w)
			m.nondets = append(m.nondets, nondetRec{name: name, kind: kind, t: v})
			return v
		}
	}
	I("U8", nondet("u8", 8))
	I("U16", nondet("u16", 16))
	I("U32", nondet("u32", 32))
	I("U64", nondet("u64", 64))
	I("Bool", nondet("bool", 0))
	I("Bytes", func(m *Machine, fr *Frame, a []Value) Value {
		name := m.mustGoString(a[0], "nondet name")
		n := int(int64(m.concretize(a[1].(*Term), "Bytes length")))
		c := m.ctx
		b := m.allocObj(types.Typ[types.Uint8], n, "vrt.Bytes "+name)
		for i := 0; i < n; i++ {
			if m.fixed != nil {
				m.rawStore(b, i, c.Const(m.nextFixed(name, "u8"), 8), 1)
				continue
			}
			v := m.fresh("n", 8)
			m.nondets = append(m.nondets, nondetRec{name: fmt.Sprintf("%s[%d]", name, i), kind: "u8", t: v})
			m.rawStore(b, i, v, 1)
		}
		return Agg{m.ptr(b), c.Const(uint64(n), 64), c.Const(uint64(n), 64)}
	})
	I("String", func(m *Machine, fr *Frame, a []Value) Value {
		name := m.mustGoString(a[0], "nondet name")
		n := int(int64(m.concretize(a[1].(*Term), "String length")))
		if n == 0 {
			return Agg{m.ctx.Const(0, 64), m.ctx.Const(0, 64)}
		}
		return m.symString(name, n)
	})
	I("Choice", func(m *Machine, fr *Frame, a []Value) Value {
		name := m.mustGoString(a[0], "choice name")
		n := int(int64(m.concretize(a[1].(*Term), "Choice arity")))
		if n <= 0 {
			m.unsupported("Choice(%d)", n)
		}
		if m.fixed != nil {
			return m.ctx.Const(m.nextFixed(name, "choice")%uint64(n), 64)
		}
		d := m.decide(make([]*Term, n))
		c := m.ctx.Const(uint64(d), 64)
		m.nondets = append(m.nondets, nondetRec{name: name, kind: "choice", t: c})
		return c
	})
	I("Assume", func(m *Machine, fr *Frame, a []Value) Value {
		cond := m.simp(a[0].(*Term))
		if cond.IsConst() {
			if cond.Val == 0 {
				panic(&pathEnd{"infeasible", "assume(false)"})
			}
			return nil
		}
		if m.feasible(cond) == Unsat {
			panic(&pathEnd{"infeasible", "assume unsatisfiable"})
		}
		m.assert(cond)
		return nil
	})
	I("Check", func(m *Machine, fr *Frame, a []Value) Value {
		label := m.mustGoString(a[1], "check label")
		m.stats.Checks++
		m.check(a[0].(*Term), label)
		return nil
	})
	I("Reach", func(m *Machine, fr *Frame, a []Value) Value {
		m.reached[m.mustGoString(a[0], "reach label")] = true
		return nil
	})
	I("Fail", func(m *Machine, fr *Frame, a []Value) Value {
		m.stats.Checks++
		m.check(m.ctx.False, m.mustGoString(a[0], "fail label"))
		return nil
	})
	I("And", func(m *Machine, fr *Frame, a []Value) Value { return m.ctx.And(a[0].(*Term), a[1].(*Term)) })
	I("Or", func(m *Machine, fr *Frame, a []Value) Value { return m.ctx.Or(a[0].(*Term), a[1].(*Term)) })
	I("Implies", func(m *Machine, fr *Frame, a []Value) Value {
		return m.ctx.Or(m.ctx.Not(a[0].(*Term)), a[1].(*Term))
	})
	I("IteU64", func(m *Machine, fr *Frame, a []Value) Value {
		return m.ctx.Ite(a[0].(*Term), a[1].(*Term), a[2].(*Term))
	})
	I("B2U", func(m *Machine, fr *Frame, a []Value) Value {
		return m.ctx.Ite(a[0].(*Term), m.ctx.Const(1, 64), m.ctx.Const(0, 64))
	})
	I("BytesEq", func(m *Machine, fr *Frame, a []Value) Value {
		x, y := a[0].(Agg), a[1].(Agg)
		return m.stringEq(Agg{x[0], x[1]}, Agg{y[0], y[1]})
	})
	I("StrEq", func(m *Machine, fr *Frame, a []Value) Value {
		return m.stringEq(a[0].(Agg), a[1].(Agg))
	})
	I("F64Eq", func(m *Machine, fr *Frame, a []Value) Value { // Go == on float64 bit patterns
		return m.ctx.FpEq(a[0].(*Term), a[1].(*Term))
	})
	I("IsConcrete", func(m *Machine, fr *Frame, a []Value) Value {
		return m.ctx.Bool(m.simp(a[0].(*Term)).IsConst())
	})
	I("Symbolic", func(m *Machine, fr *Frame, a []Value) Value { return m.ctx.True })
	I("SetOwner", func(m *Machine, fr *Frame, a []Value) Value {
		m.owner = m.mustGoString(a[0], "owner tag")
		return nil
	})
	I("Freeze", func(m *Machine, fr *Frame, a []Value) Value {
		tag := m.mustGoString(a[0], "owner tag")
		on := m.simp(a[1].(*Term)).Val != 0
		for _, b := range m.heap.blocks {
			if b.owner == tag && b.frozen != on {
				nb := m.wblock(b)
				nb.frozen = on
			}
		}
		m.frozenOn = true
		return nil
	})
	I("FreezePtr", func(m *Machine, fr *Frame, a []Value) Value {
		p := m.simp(a[0].(*Term))
		on := m.simp(a[1].(*Term)).Val != 0
		if p.IsConst() && p.Val != 0 {
			if b := m.heap.find(p.Val); b != nil {
				b = m.wblock(b)
				b.frozen = on
			}
		}
		m.frozenOn = true
		return nil
	})
	blockOf := func(m *Machine, v Value) *Block {
		p := m.simp(v.(*Term))
		if !p.IsConst() {
			p = m.ctx.Const(m.concretize(p, "pointer inspection"), 64)
		}
		if p.Val == 0 {
			return nil
		}
		return m.heap.find(p.Val)
	}
	I("IsOwner", func(m *Machine, fr *Frame, a []Value) Value {
		b := blockOf(m, a[0])
		tag := m.mustGoString(a[1], "owner tag")
		if b == nil {
			return m.ctx.False
		}
		if tag == "dec+" {
			// memory a decode may hand out: allocated during the decode, already owned by the caller,
			// or a pointer-free chunk of the pooled decoder's bump allocator (handed out once, see the span lemma)
			ok := b.owner == "dec" || b.owner == "user" || (b.owner == "pool" && b.noscan && strings.HasPrefix(b.name, "mallocgc")) ||
				(b.owner == "const" && b.readonly) // immutable string literals referenced by declared defaults
			return m.ctx.Bool(ok)
		}
		return m.ctx.Bool(b.owner == tag)
	})
	// GuardedBy(mu, p): the block (or map) p points to may only be written (maps: accessed) while mutex mu is held
	I("GuardedBy", func(m *Machine, fr *Frame, a []Value) Value {
		mu := m.simp(a[0].(*Term))
		b := blockOf(m, a[1])
		if b != nil && mu.IsConst() {
			b = m.wblock(b)
			b.guard = mu.Val
		}
		return nil
	})
	I("IsStatic", func(m *Machine, fr *Frame, a []Value) Value {
		b := blockOf(m, a[0])
		return m.ctx.Bool(b != nil && b.owner == "const" && b.readonly)
	})
	I("BlockID", func(m *Machine, fr *Frame, a []Value) Value {
		b := blockOf(m, a[0])
		if b == nil {
			return m.ctx.Const(^uint64(0), 64)
		}
		return m.ctx.Const(uint64(b.base), 64)
	})
	I("BlockOff", func(m *Machine, fr *Frame, a []Value) Value {
		b := blockOf(m, a[0])
		if b == nil {
			return m.ctx.Const(0, 64)
		}
		return m.ctx.Const(m.simp(a[0].(*Term)).Val-b.base, 64)
	})
	I("BlockSize", func(m *Machine, fr *Frame, a []Value) Value {
		b := blockOf(m, a[0])
		if b == nil {
			return m.ctx.Const(0, 64)
		}
		if b.sizeTerm != nil {
			return b.sizeTerm
		}
		return m.ctx.Const(uint64(b.size), 64)
	})
	I("BlockNoScan", func(m *Machine, fr *Frame, a []Value) Value {
		b := blockOf(m, a[0])
		return m.ctx.Bool(b != nil && b.noscan)
	})
	// BlockElemSize: element size of the type the block was allocated for (0 if untyped)
	I("BlockElemSize", func(m *Machine, fr *Frame, a []Value) Value {
		b := blockOf(m, a[0])
		if b == nil || b.typ == nil {
			return m.ctx.Const(0, 64)
		}
		return m.ctx.Const(uint64(m.sizeof(b.typ)), 64)
	})
	I("BlockTypeName", func(m *Machine, fr *Frame, a []Value) Value {
		b := blockOf(m, a[0])
		if b == nil || b.typ == nil {
			return m.mkString("")
		}
		return m.mkString(typeString(b.typ))
	})
	I("ErrClass", func(m *Machine, fr *Frame, a []Value) Value {
		return m.ctx.Const(uint64(m.errClass(a[0].(Agg), 0)), 64)
	})
	I("ErrMsgContains", func(m *Machine, fr *Frame, a []Value) Value {
		sub := m.mustGoString(a[1], "substring")
		return m.ctx.Bool(strings.Contains(m.errMsg(a[0].(Agg), 0), sub))
	})
	I("Catch", func(m *Machine, fr *Frame, a []Value) (res Value) {
		f := a[0].(*Term)
		res = m.ctx.Const(0, 64)
		func() {
			defer func() {
				if r := recover(); r != nil {
					gp, ok := r.(*GuestPanic)
					if !ok {
						panic(r)
					}
					m.lastPanic = gp.msg
					if gp.runtime {
						res = m.ctx.Const(2, 64)
					} else {
						res = m.ctx.Const(1, 64)
					}
				}
			}()
			m.callClosure(fr, f, nil)
		}()
		return res
	})
	I("LastPanicContains", func(m *Machine, fr *Frame, a []Value) Value {
		return m.ctx.Bool(strings.Contains(m.lastPanic, m.mustGoString(a[0], "substring")))
	})
	I("AllocBytes", func(m *Machine, fr *Frame, a []Value) Value { return m.allocBytes })
	I("ResetAllocBytes", func(m *Machine, fr *Frame, a []Value) Value {
		m.allocBytes = m.ctx.Const(0, 64)
		return nil
	})
	I("AllocTrack", func(m *Machine, fr *Frame, a []Value) Value {
		m.allocTrack, m.allocEvents, m.allocSites = true, 0, nil
		return nil
	})
	I("AllocEvents", func(m *Machine, fr *Frame, a []Value) Value {
		m.allocTrack = false
		return m.ctx.Const(uint64(m.allocEvents), 64)
	})
	I("AllocReps", func(m *Machine, fr *Frame, a []Value) Value { return m.ctx.Const(1, 64) })
	I("MaxDepth", func(m *Machine, fr *Frame, a []Value) Value { return m.ctx.Const(uint64(m.maxDepth), 64) })
	I("ResetMaxDepth", func(m *Machine, fr *Frame, a []Value) Value {
		m.maxDepth = m.depth
		return m.ctx.Const(uint64(m.depth), 64)
	})
	I("Steps", func(m *Machine, fr *Frame, a []Value) Value { return m.ctx.Const(uint64(m.steps), 64) })
	I("PoolPolicy", func(m *Machine, fr *Frame, a []Value) Value {
		m.poolPolicy = m.mustGoString(a[0], "pool policy")
		return nil
	})
	I("Param", func(m *Machine, fr *Frame, a []Value) Value {
		name := m.mustGoString(a[0], "param name")
		v, ok := m.cfg.Params[name]
		if !ok {
			m.unsupported("job parameter %q not set", name)
		}
		return m.ctx.Const(uint64(int64(v)), 64)
	})
	I("ParamOr", func(m *Machine, fr *Frame, a []Value) Value {
		name := m.mustGoString(a[0], "param name")
		if v, ok := m.cfg.Params[name]; ok {
			return m.ctx.Const(uint64(int64(v)), 64)
		}
		return a[1]
	})
	I("RunConcurrently", func(m *Machine, fr *Frame, a []Value) Value {
		sl := a[0].(Agg)
		n := int(m.concretize(sl[1].(*Term), "RunConcurrently arity"))
		var fns []*Term
		for i := 0; i < n; i++ {
			fns = append(fns, m.loadBits(m.addOff(sl[0].(*Term), int64(8*i)), 8))
		}
		m.runConcurrently(fr, fns)
		return nil
	})
	I("Phase", func(m *Machine, fr *Frame, a []Value) Value {
		m.phase = m.mustGoString(a[0], "phase")
		return nil
	})
	I("Observe", func(m *Machine, fr *Frame, a []Value) Value {
		name := m.mustGoString(a[0], "observe name")
		sl := a[1].(Agg)
		n := int(m.concretize(sl[1].(*Term), "observe len"))
		bs, ok := m.bytesOf(sl[0].(*Term), n)
		if !ok {
			m.observed = append(m.observed, name+"=<symbolic>")
		} else {
			m.observed = append(m.observed, fmt.Sprintf("%s=%x", name, bs))
		}
		return nil
	})
	I("Note", func(m *Machine, fr *Frame, a []Value) Value { return nil })
	I("MutexHeld", func(m *Machine, fr *Frame, a []Value) Value {
		p := m.simp(a[0].(*Term))
		return m.ctx.Bool(p.IsConst() && m.mutexes[p.Val])
	})
	// HavocBytes: overwrite n bytes at p with fresh symbolic bytes (dirty pooled state)
	I("HavocBytes", func(m *Machine, fr *Frame, a []Value) Value {
		name := m.mustGoString(a[0], "havoc name")
		p := a[1].(*Term)
		n := int(int64(m.concretize(a[2].(*Term), "havoc length")))
		for i := 0; i < n; {
			k := 8
			if n-i < 8 {
				k = n - i
			}
			v := m.fresh("h", 8*k)
			kind := map[int]string{1: "u8", 2: "u16", 4: "u32", 8: "u64"}[k]
			if kind == "" {
				k = 1
				v = m.fresh("h", 8)
				kind = "u8"
			}
			if m.fixed != nil {
				// concrete mode: the same pseudo-random / recorded stream the native harness consumes
				v = m.ctx.Const(m.nextFixed(name, kind), 8*k)
			} else {
				m.nondets = append(m.nondets, nondetRec{name: fmt.Sprintf("%s+%d", name, i), kind: kind, t: v})
			}
			m.storeBits(m.addOff(p, int64(i)), v, k)
			i += k
		}
		return nil
	})
}

// errClass: 0 nil; 1 io.ErrShortBuffer; 100+typeid for *thrift.ProtocolException
// reachable through fmt.Errorf("%w") wrapping; 2 any other error.
func (m *Machine) errClass(e Agg, depth int) int {
	tw := m.simp(e[0].(*Term))
	if !tw.IsConst() {
		m.unsupported("error with symbolic dynamic type")
	}
	if tw.Val == 0 {
		return 0
	}
	if depth > 100000 {
		return 2
	}
	dt := m.typeAt(tw.Val)
	if pt, ok := dt.(*types.Pointer); ok {
		if n, ok := pt.Elem().(*types.Named); ok {
			switch n.Obj().Name() {
			case "ProtocolException":
				st := n.Underlying().(*types.Struct)
				// embedded ApplicationException{t int32; m string} at offset 0
				_ = st
				tid := m.simp(m.loadBits(e[1].(*Term), 4))
				if !tid.IsConst() {
					m.unsupported("symbolic exception type id")
				}
				return 100 + int(int32(tid.Val))
			case "wrapError":
				v := m.load(e[1].(*Term), n).(Agg)
				return m.errClass(v[1].(Agg), depth+1)
			case "errorString":
				// identity with io.ErrShortBuffer
				if g := m.P.ioErrShortBuffer; g != nil {
					ga := m.load(m.globalAddr(g), g.Type().(*types.Pointer).Elem()).(Agg)
					if d := m.simp(ga[1].(*Term)); d.IsConst() && d.Val == m.simp(e[1].(*Term)).Val {
						return 1
					}
				}
				return 2
			}
		}
	}
	return 2
}

func (m *Machine) errMsg(e Agg, depth int) string {
	tw := m.simp(e[0].(*Term))
	if !tw.IsConst() || tw.Val == 0 || depth > 50 {
		return ""
	}
	dt := m.typeAt(tw.Val)
	if pt, ok := dt.(*types.Pointer); ok {
		if n, ok := pt.Elem().(*types.Named); ok {
			switch n.Obj().Name() {
			case "ProtocolException":
				s, _ := m.goString(m.load(m.addOff(e[1].(*Term), 8), types.Typ[types.String]))
				return s
			case "wrapError":
				v := m.load(e[1].(*Term), n).(Agg)
				s, _ := m.goString(v[0])
				return s + " | " + m.errMsg(v[1].(Agg), depth+1)
			case "errorString":
				v := m.load(e[1].(*Term), n).(Agg)
				s, _ := m.goString(v[0])
				return s
			}
		}
	}
	if n, ok := dt.(*types.Named); ok {
		return "<" + n.Obj().Name() + ">"
	}
	return "<" + dt.String() + ">"
}

func splitmix(x uint64) uint64 {
	x += 0x9e3779b97f4a7c15
	x = (x ^ (x >> 30)) * 0xbf58476d1ce4e5b9
	x = (x ^ (x >> 27)) * 0x94d049bb133111eb
	return x ^ (x >> 31)
}

// nextFixed: concrete mode. With a recorded list the values are replayed in
// order; with a seed they are a fixed pseudo-random function of the call index
// (the native vrt package computes the same function).
var ndTrace = os.Getenv("VERIF_ND_TRACE") != ""

func (m *Machine) nextFixed(name, kind string) uint64 {
	if m.fixedSeed != 0 {
		v := splitmix(m.fixedSeed + uint64(m.fixedPos)*0x100000001b3)
		m.fixedPos++
		if v%4 == 0 {
			v = v >> 8 % 3 // bias towards small values
		}
		if ndTrace {
			fmt.Fprintf(os.Stderr, "VERIF-ND: %d %s %s\n", m.fixedPos-1, kind, name)
		}
		return v
	}
	if m.fixedPos >= len(m.fixed) {
		return 0
	}
	v := m.fixed[m.fixedPos]
	m.fixedPos++
	if v.Kind != kind {
		m.unsupported("concrete replay divergence at #%d: harness asks %s %q, record has %s %q", m.fixedPos-1, kind, name, v.Kind, v.Name)
	}
	return v.Value
}
