package main

import (
	"fmt"
	"go/token"
	"go/types"
	"sort"
	"strconv"
	"strings"

	"golang.org/x/tools/go/ssa"
	"golang.org/x/tools/go/types/typeutil"
)

// Value is *Term (scalars, pointers, maps, funcs) or Agg (struct/array/tuple/
// string{ptr,len}/slice{ptr,len,cap}/iface{type,data}).
type Value interface{}
type Agg []Value

// Program: everything shared and immutable across machines.
type Program struct {
	prog     *ssa.Program
	fset     *token.FileSet
	sizes    types.Sizes
	pkgs     map[string]*ssa.Package
	models   map[string]Model
	rtypeTyp types.Type // *reflect.rtype
	initPkgs []string
	initSet  map[string]bool

	poolNewOff       int64
	ioErrShortBuffer *ssa.Global
	onPublish        *ssa.Function // harness callback invoked after every atomic pointer Store
}

// ---- path control signals (host panics) ----

type GuestPanic struct {
	val     Value // interface value passed to panic
	runtime bool  // true for Go runtime errors (index, nil deref, ...)
	msg     string
	site    string
}

type pathEnd struct {
	status string // "infeasible" | "unsupported" | "steplimit" | "fault" | "stop"
	msg    string
}

type Violation struct {
	Kind      string            `json:"kind"` // check | panic | fault | monitor
	Label     string            `json:"label"`
	Site      string            `json:"site"`
	Nondets   []NondetVal       `json:"nondets"`
	Decisions []int             `json:"decisions"`
	Phase     string            `json:"phase"`
	Extra     map[string]string `json:"extra,omitempty"`
}

type NondetVal struct {
	Name  string `json:"name"`
	Kind  string `json:"kind"` // u8,u16,u32,u64,bool,choice
	Value uint64 `json:"value"`
}

type pendingPath struct {
	prefix []int
	wit    witness
}

type nondetRec struct {
	name string
	kind string
	t    *Term
}

type Stats struct {
	Steps         int64
	Allocs        int
	Branches      int
	Paths         int
	Funcs         map[string]bool
	ModelsHit     map[string]int
	Unknowns      int
	Concretize    int
	Checks        int
	WitnessHits   int
	ChecksRewrite int
	ChecksSolver  int
	MemoHits      int
}

type Machine struct {
	P      *Program
	ctx    *Ctx
	solver *Solver
	heap   Heap
	epoch  int

	pc       []*Term
	known    map[int]*Term
	prefix   []int
	cursor   int
	trace    []int
	pending  []pendingPath
	nvars    int
	nondets  []nondetRec
	observed []string

	globals  map[*ssa.Global]uint64
	funcs    map[*ssa.Function]uint64
	strs     map[string]uint64
	typeBlks *typeutil.Map // types.Type -> uint64
	pools    map[uint64]*PoolState
	mutexes  map[uint64]bool
	initDone map[string]bool

	poolPolicy string
	allocSeq   int
	allocBytes *Term // running total of requested bytes (M-alloc)
	// C18: operations that allocate on the heap whatever the compiler's escape analysis decides (growslice, make with a
	// non-constant size, mallocgc, reflect.New/MakeMap, pool miss, fmt/errors/strings helpers), counted while tracking is on
	allocTrack  bool
	allocEvents int
	allocSites  []string
	owner       string

	steps       int64
	stepLimit   int64
	depth       int
	maxDepth    int
	envCache    map[string]Value
	inBase      bool
	inCallback  bool
	sched       *SchedState
	violations  []Violation
	cfg         *JobCfg
	stats       *Stats
	callstack   []string
	frozenOn    bool
	expectPanic bool
	notes       []string
	reached     map[string]bool
	violSeen    map[string]int
	phase       string
	fixed       []NondetVal // concrete mode: recorded nondet values
	fixedPos    int
	fixedSeed   uint64
	witnesses   []witness
	lastModel   witness
	varMemo     map[int][]int
	qmemo       map[string]Result
	offCache    map[*types.Struct][]int64
	finfo       map[*ssa.Function]*funcInfo
	sizeCache   map[types.Type]int
	lastPanic   string
}

func (m *Machine) fresh(prefix string, w int) *Term {
	m.nvars++
	return m.ctx.Var(fmt.Sprintf("%s%d_%d", prefix, m.nvars, w), w)
}

func (m *Machine) unsupported(format string, a ...interface{}) {
	panic(&pathEnd{"unsupported", fmt.Sprintf(format, a...)})
}

// allocEvent records a definite heap allocation (see allocTrack).
func (m *Machine) allocEvent(what string) {
	if !m.allocTrack {
		return
	}
	m.allocEvents++
	if len(m.allocSites) < 8 {
		m.allocSites = append(m.allocSites, what+" @ "+m.site())
	}
}

func (m *Machine) site() string {
	if len(m.callstack) == 0 {
		return ""
	}
	n := len(m.callstack)
	lo := n - 4
	if lo < 0 {
		lo = 0
	}
	return strings.Join(m.callstack[lo:], " > ")
}

// ---------- path condition & decisions ----------

func (m *Machine) simp(t *Term) *Term {
	if len(m.known) == 0 || t.IsConst() {
		return t
	}
	return m.ctx.Subst(t, m.known, map[int]*Term{})
}

func (m *Machine) assert(t *Term) {
	t = m.simp(t)
	if t.IsConst() {
		if t.Val == 0 {
			panic(&pathEnd{"infeasible", "assert false"})
		}
		return
	}
	m.pc = append(m.pc, t)
	m.learn(t)
	// keep only witnesses that still satisfy the path condition
	kept := m.witnesses[:0:0]
	for _, w := range m.witnesses {
		if m.evalUnder(t, w) {
			kept = append(kept, w)
		}
	}
	if m.lastModel != nil && m.evalUnder(t, m.lastModel) {
		kept = append(kept, m.lastModel)
	}
	m.lastModel = nil
	if len(kept) > 6 {
		kept = kept[len(kept)-6:]
	}
	m.witnesses = kept
}

// learn records equalities term==const for later substitution.
func (m *Machine) learn(t *Term) {
	switch t.Op {
	case OpEq:
		a, b := t.Args[0], t.Args[1]
		if b.IsConst() && !a.IsConst() {
			m.known[a.ID] = b
		} else if a.IsConst() && !b.IsConst() {
			m.known[b.ID] = a
		}
	case OpAnd:
		m.learn(t.Args[0])
		m.learn(t.Args[1])
	case OpNot:
		if t.Args[0].W == 0 && t.Args[0].Op != OpConst {
			m.known[t.Args[0].ID] = m.ctx.False
		}
	default:
		if t.W == 0 {
			m.known[t.ID] = m.ctx.True
		}
	}
}

// varsOf returns the (memoised) sorted variable-term IDs below t.
func (m *Machine) varsOf(t *Term) []int {
	if v, ok := m.varMemo[t.ID]; ok {
		return v
	}
	var out []int
	switch t.Op {
	case OpConst:
	case OpVar:
		out = []int{t.ID}
	default:
		set := map[int]bool{}
		for _, a := range t.Args {
			for _, v := range m.varsOf(a) {
				set[v] = true
			}
		}
		out = make([]int, 0, len(set))
		for v := range set {
			out = append(out, v)
		}
		sort.Ints(out)
	}
	m.varMemo[t.ID] = out
	return out
}

// slice returns the constraints of the path condition that share variables (transitively) with extra.
func (m *Machine) slice(extra *Term) []*Term {
	need := map[int]bool{}
	for _, v := range m.varsOf(extra) {
		need[v] = true
	}
	used := make([]bool, len(m.pc))
	var out []*Term
	for changed := true; changed; {
		changed = false
		for i, c := range m.pc {
			if used[i] {
				continue
			}
			hit := false
			vs := m.varsOf(c)
			for _, v := range vs {
				if need[v] {
					hit = true
					break
				}
			}
			if hit {
				used[i] = true
				changed = true
				out = append(out, c)
				for _, v := range vs {
					need[v] = true
				}
			}
		}
	}
	return out
}

type witness map[string]uint64

// fullModel asks the solver for values of every variable of pc ∧ extra.
func (m *Machine) fullModel(extra *Term) witness {
	q := append(append([]*Term(nil), m.pc...), extra)
	var vars []*Term
	seen := map[int]bool{}
	for _, c := range q {
		for _, v := range m.varsOf(c) {
			if !seen[v] {
				seen[v] = true
				vars = append(vars, m.ctx.terms[v])
			}
		}
	}
	if len(vars) > 256 {
		return nil
	}
	r, vals := m.solver.Check(q, vars)
	if r != Sat {
		return nil
	}
	w := witness{}
	for i, v := range vars {
		w[v.Name] = vals[i]
	}
	return w
}

func (m *Machine) evalUnder(t *Term, w witness) bool {
	return m.ctx.Eval(t, w, map[int]uint64{}) != 0
}

func (m *Machine) feasible(extra *Term) Result {
	if extra.IsConst() {
		if extra.Val == 0 {
			return Unsat
		}
		return Sat
	}
	// 1. a known witness of the path condition that also satisfies extra
	for _, w := range m.witnesses {
		if m.evalUnder(extra, w) {
			m.stats.WitnessHits++
			return Sat
		}
	}
	// 2. solver on the relevant slice, memoised
	rel := m.slice(extra)
	ids := make([]int, 0, len(rel)+1)
	for _, c := range rel {
		ids = append(ids, c.ID)
	}
	sort.Ints(ids)
	var kb strings.Builder
	for _, id := range ids {
		kb.WriteString(strconv.Itoa(id))
		kb.WriteByte(',')
	}
	kb.WriteString("|")
	kb.WriteString(strconv.Itoa(extra.ID))
	key := kb.String()
	if r, ok := m.qmemo[key]; ok {
		m.stats.MemoHits++
		return r
	}
	q := append(append([]*Term(nil), rel...), extra)
	// ask for a model of the sliced variables so the answer can be reused as a witness
	var vars []*Term
	seen := map[int]bool{}
	for _, c := range q {
		for _, v := range m.varsOf(c) {
			if !seen[v] {
				seen[v] = true
				vars = append(vars, m.ctx.terms[v])
			}
		}
	}
	if len(vars) > 64 {
		vars = nil
	}
	r, vals := m.solver.Check(q, vars)
	if r == Unknown {
		m.stats.Unknowns++
		m.notes = append(m.notes, "solver unknown at "+m.site())
	} else {
		m.qmemo[key] = r
	}
	if r == Sat && vars != nil {
		// extend a witness of the path condition with the model of the slice:
		// variables outside the slice are independent of it
		w := witness{}
		if len(m.witnesses) > 0 {
			for k, v := range m.witnesses[len(m.witnesses)-1] {
				w[k] = v
			}
		}
		for i, v := range vars {
			w[v.Name] = vals[i]
		}
		ok := true
		for _, c := range m.pc {
			if !m.evalUnder(c, w) {
				ok = false
				break
			}
		}
		if ok && m.evalUnder(extra, w) {
			m.lastModel = w
		} else if len(m.pc) < 400 {
			// no reusable witness: one full query for a complete model of the path condition
			m.lastModel = m.fullModel(extra)
		}
	}
	return r
}

// decide consumes/records one n-ary decision. alts[i] is the constraint that
// holds when alternative i is taken (nil = no constraint, always feasible).
func (m *Machine) decide(alts []*Term) int {
	if m.cursor < len(m.prefix) {
		d := m.prefix[m.cursor]
		m.cursor++
		m.trace = append(m.trace, d)
		if d >= len(alts) {
			panic(fmt.Sprintf("replay divergence: decision %d of %d alternatives at %s", d, len(alts), m.site()))
		}
		if alts[d] != nil {
			m.assert(alts[d])
		}
		return d
	}
	m.stats.Branches++
	var feas []int
	models := make([]witness, len(alts))
	for i, a := range alts {
		if a == nil {
			feas = append(feas, i)
			continue
		}
		// last alternative with nothing feasible so far: PC is satisfiable, so it must be
		if i == len(alts)-1 && len(feas) == 0 && m.altsExhaustive(alts) {
			feas = append(feas, i)
			continue
		}
		m.lastModel = nil
		if r := m.feasible(a); r != Unsat {
			feas = append(feas, i)
			models[i] = m.lastModel
			if models[i] == nil {
				for _, w := range m.witnesses {
					if m.evalUnder(a, w) {
						models[i] = w
						break
					}
				}
			}
		}
	}
	if len(feas) == 0 {
		panic(&pathEnd{"infeasible", "no feasible alternative"})
	}
	for _, i := range feas[1:] {
		p := append(append([]int(nil), m.trace...), i)
		m.pending = append(m.pending, pendingPath{p, models[i]})
	}
	d := feas[0]
	m.cursor++
	m.prefix = append(m.prefix, d)
	m.trace = append(m.trace, d)
	m.lastModel = models[d]
	if alts[d] != nil {
		m.assert(alts[d])
	}
	return d
}

// altsExhaustive: true for the 2-way cond/!cond split.
func (m *Machine) altsExhaustive(alts []*Term) bool {
	if len(alts) != 2 || alts[0] == nil || alts[1] == nil {
		return false
	}
	return m.ctx.Not(alts[0]) == alts[1]
}

// branch forks on a symbolic condition.
func (m *Machine) branch(cond *Term) bool {
	cond = m.simp(cond)
	if cond.IsConst() {
		return cond.Val != 0
	}
	d := m.decide([]*Term{cond, m.ctx.Not(cond)})
	return d == 0
}

// concretize returns a concrete value of t, forking over all feasible values.
func (m *Machine) concretize(t *Term, what string) uint64 {
	t = m.simp(t)
	if t.IsConst() {
		return t.Val
	}
	m.stats.Concretize++
	c := m.ctx
	if m.cursor < len(m.prefix) {
		// replay: decision index refers to the enumeration order below, which is
		// deterministic (same PC, same solver) -- to be robust we store the value
		// itself in the decision stream (two slots: marker, value).
		v := uint64(m.prefix[m.cursor])
		m.cursor++
		m.trace = append(m.trace, int(v))
		m.assert(c.Eq(t, c.Const(v, t.W)))
		return v
	}
	// enumerate
	limit := m.cfg.ConcretizeCap
	var vals []uint64
	excl := append([]*Term(nil), m.pc...)
	for {
		r, mv := m.solver.Check(excl, []*Term{t})
		if r == Unknown {
			m.stats.Unknowns++
			panic(&pathEnd{"unsupported", "solver unknown while concretizing " + what + " at " + m.site()})
		}
		if r == Unsat {
			break
		}
		vals = append(vals, mv[0])
		excl = append(excl, c.Not(c.Eq(t, c.Const(mv[0], t.W))))
		if len(vals) > limit {
			panic(&pathEnd{"steplimit", fmt.Sprintf("more than %d feasible values concretizing %s at %s", limit, what, m.site())})
		}
	}
	if len(vals) == 0 {
		panic(&pathEnd{"infeasible", "concretize: no value"})
	}
	sort.Slice(vals, func(i, j int) bool { return vals[i] < vals[j] })
	for _, v := range vals[1:] {
		p := append(append([]int(nil), m.trace...), int(v))
		m.pending = append(m.pending, pendingPath{p, nil})
	}
	v := vals[0]
	m.cursor++
	m.prefix = append(m.prefix, int(v))
	m.trace = append(m.trace, int(v))
	m.assert(c.Eq(t, c.Const(v, t.W)))
	return v
}

// model returns values of all nondet terms under the current PC plus extra.
func (m *Machine) model(extra *Term) ([]NondetVal, bool) {
	q := append([]*Term(nil), m.pc...)
	if extra != nil {
		q = append(q, extra)
	}
	var ts []*Term
	for _, n := range m.nondets {
		ts = append(ts, n.t)
	}
	r, vals := m.solver.Check(q, ts)
	if r != Sat {
		return nil, false
	}
	out := make([]NondetVal, len(m.nondets))
	for i, n := range m.nondets {
		v := uint64(0)
		if len(vals) > i {
			v = vals[i]
		}
		out[i] = NondetVal{n.name, n.kind, v}
	}
	return out, true
}

func (m *Machine) violate(kind, label string, extra *Term) {
	key := kind + "|" + label
	m.violSeen[key]++
	if m.violSeen[key] > 3 {
		// already witnessed with models; only count further occurrences
		m.violations = append(m.violations, Violation{Kind: kind, Label: label, Site: m.site(), Phase: m.phase, Decisions: append([]int(nil), m.trace...), Extra: map[string]string{"dup": "1"}})
		return
	}
	if m.inBase {
		m.violations = append(m.violations, Violation{Kind: kind, Label: label, Site: m.site(), Phase: "setup", Nondets: []NondetVal{}})
		return
	}
	nd, ok := m.model(extra)
	if !ok {
		m.notes = append(m.notes, "violation without model: "+label)
		m.stats.Unknowns++
		return
	}
	v := Violation{Kind: kind, Label: label, Site: m.site(), Phase: m.phase, Nondets: nd, Decisions: append([]int(nil), m.trace...)}
	if strings.HasPrefix(label, "C18") && len(m.allocSites) > 0 {
		v.Site = "allocating operations: " + strings.Join(m.allocSites, "; ")
	}
	// does the witness depend on the contents of uninitialised memory (fresh "garb" bytes)?
	q := append([]*Term(nil), m.pc...)
	if extra != nil {
		q = append(q, extra)
	}
	for _, t := range q {
		for _, id := range m.varsOf(t) {
			if strings.HasPrefix(m.ctx.terms[id].Name, "garb") {
				v.Extra = map[string]string{"uninit": "1"}
			}
		}
	}
	m.violations = append(m.violations, v)
}

// check: harness assertion. Violated if pc ∧ ¬cond is satisfiable.
func (m *Machine) check(cond *Term, label string) {
	cond = m.simp(cond)
	if cond.IsConst() && cond.Val != 0 {
		m.stats.ChecksRewrite++ // valid for all values by term normalisation alone
		return
	}
	m.stats.ChecksSolver++
	if m.fixed != nil && cond.IsConst() {
		// concrete mode: record the failed check and keep going, like the native harness does
		m.violations = append(m.violations, Violation{Kind: "check", Label: label, Site: m.site(), Phase: m.phase})
		return
	}
	neg := m.ctx.Not(cond)
	r := m.feasible(neg)
	if r == Sat {
		m.violate("check", label, neg)
	} else if r == Unknown {
		m.notes = append(m.notes, "check undecided: "+label)
	}
	// continue under cond where it can hold; if it fails for every value of this path, keep going without it
	// so that later assertions of the harness (other properties) are still evaluated
	if cond.IsConst() {
		return
	}
	if m.feasible(cond) == Unsat {
		return
	}
	m.assert(cond)
}

// monitor: engine-level safety condition (bounds, frozen, ...). cond must hold.
func (m *Machine) monitor(cond *Term, kind, label string) {
	cond = m.simp(cond)
	if cond.IsConst() && cond.Val != 0 {
		return
	}
	neg := m.ctx.Not(cond)
	if r := m.feasible(neg); r != Unsat {
		if r == Sat {
			m.violate(kind, label, neg)
		}
		if cond.IsConst() || m.feasible(cond) == Unsat {
			panic(&pathEnd{"fault", label})
		}
	}
	m.assert(cond)
}

// ---------- layout helpers ----------

func (m *Machine) sizeof(t types.Type) int {
	if s, ok := m.sizeCache[t]; ok {
		return s
	}
	s := int(m.P.sizes.Sizeof(t))
	m.sizeCache[t] = s
	return s
}

func (m *Machine) alignof(t types.Type) int { return int(m.P.sizes.Alignof(t)) }

func (m *Machine) fieldOffsets(st *types.Struct) []int64 {
	if o, ok := m.offCache[st]; ok {
		return o
	}
	o := m.fieldOffsets0(st)
	m.offCache[st] = o
	return o
}

func (m *Machine) fieldOffsets0(st *types.Struct) []int64 {
	n := st.NumFields()
	fs := make([]*types.Var, n)
	for i := 0; i < n; i++ {
		fs[i] = st.Field(i)
	}
	return m.P.sizes.Offsetsof(fs)
}

func isSigned(t types.Type) bool {
	if b, ok := t.Underlying().(*types.Basic); ok {
		return b.Info()&types.IsInteger != 0 && b.Info()&types.IsUnsigned == 0
	}
	return false
}

func isFloat(t types.Type) bool {
	if b, ok := t.Underlying().(*types.Basic); ok {
		return b.Info()&types.IsFloat != 0
	}
	return false
}

func isString(t types.Type) bool {
	if b, ok := t.Underlying().(*types.Basic); ok {
		return b.Info()&types.IsString != 0
	}
	return false
}

func isBool(t types.Type) bool {
	if b, ok := t.Underlying().(*types.Basic); ok {
		return b.Info()&types.IsBoolean != 0
	}
	return false
}

func (m *Machine) width(t types.Type) int {
	switch u := t.Underlying().(type) {
	case *types.Basic:
		if u.Info()&types.IsBoolean != 0 {
			return 0
		}
		if u.Kind() == types.UntypedNil {
			return 64
		}
		return 8 * m.sizeof(u)
	}
	return 64
}

// isDirectIface: pointer-shaped types are stored directly in the interface data word.
func isDirectIface(t types.Type) bool {
	switch u := t.Underlying().(type) {
	case *types.Pointer, *types.Map, *types.Chan, *types.Signature:
		return true
	case *types.Basic:
		return u.Kind() == types.UnsafePointer
	case *types.Struct:
		return u.NumFields() == 1 && isDirectIface(u.Field(0).Type())
	case *types.Array:
		return u.Len() == 1 && isDirectIface(u.Elem())
	}
	return false
}

func (m *Machine) zero(t types.Type) Value {
	c := m.ctx
	switch u := t.Underlying().(type) {
	case *types.Basic:
		if u.Info()&types.IsString != 0 {
			return Agg{c.Const(0, 64), c.Const(0, 64)}
		}
		if u.Info()&types.IsBoolean != 0 {
			return c.False
		}
		if u.Info()&types.IsComplex != 0 {
			w := 4 * m.sizeof(u)
			return Agg{c.Const(0, w), c.Const(0, w)}
		}
		return c.Const(0, m.width(t))
	case *types.Pointer, *types.Map, *types.Chan, *types.Signature:
		return c.Const(0, 64)
	case *types.Slice:
		return Agg{c.Const(0, 64), c.Const(0, 64), c.Const(0, 64)}
	case *types.Interface:
		return Agg{c.Const(0, 64), c.Const(0, 64)}
	case *types.Struct:
		a := make(Agg, u.NumFields())
		for i := range a {
			a[i] = m.zero(u.Field(i).Type())
		}
		return a
	case *types.Array:
		a := make(Agg, int(u.Len()))
		for i := range a {
			a[i] = m.zero(u.Elem())
		}
		return a
	case *types.Tuple:
		a := make(Agg, u.Len())
		for i := range a {
			a[i] = m.zero(u.At(i).Type())
		}
		return a
	}
	m.unsupported("zero value of %s", t)
	return nil
}

// ---------- memory access with monitors ----------

const nilPage = 4096

// deref resolves pointer p for an access of n bytes.
func (m *Machine) deref(p *Term, n int, write bool, what string) (*Block, int) {
	p = m.simp(p)
	var addr uint64
	if p.IsConst() {
		addr = p.Val
	} else {
		addr = m.concretize(p, "address ("+what+")")
	}
	if addr < nilPage {
		panic(&GuestPanic{runtime: true, msg: "invalid memory address or nil pointer dereference", site: m.site()})
	}
	b := m.heap.find(addr)
	if b == nil {
		b = m.findSym(addr)
	}
	if b != nil && b.sizeTerm != nil {
		// symbolic-size block: the access must lie below the logical size for every value
		end := addr - b.base + uint64(n)
		m.monitor(m.ctx.Ule(m.ctx.Const(end, 64), b.sizeTerm), "fault", fmt.Sprintf("M-bounds: %s of %d bytes at offset %d beyond the (symbolic) size of %s", what, n, addr-b.base, b.name))
		if int(end) > b.size {
			if int(end) > m.cfg.MaxAlloc {
				m.unsupported("access at offset %d of a symbolic-size block exceeds the engine cap", end)
			}
			b = m.wblock(b)
			grow := int(end) - b.size
			b.data = append(b.data, make([]byte, grow)...)
			if b.defined != nil {
				b.defined = append(b.defined, make([]bool, grow)...)
			}
			if b.cellAt != nil {
				for i := 0; i < grow; i++ {
					b.cellAt = append(b.cellAt, -1)
				}
			}
			b.size = int(end)
		}
	} else if b == nil || addr+uint64(n) > b.base+uint64(b.size) {
		m.violate("fault", fmt.Sprintf("M-bounds: %s of %d bytes at %#x outside any block (%s)", what, n, addr, describeNear(&m.heap, addr)), nil)
		panic(&pathEnd{"fault", "out-of-bounds access"})
	}
	if b.released {
		m.violate("monitor", fmt.Sprintf("M-released: %s of pooled object %s after Put", what, b.name), nil)
	}
	if write {
		if b.frozen && m.frozenOn {
			if b.owner == "setup" || b.owner == "init" {
				m.violate("monitor", fmt.Sprintf("C08 steady-state call writes shared descriptor/cache memory without synchronisation (%s, offset %d)", b.name, addr-b.base), nil)
			} else {
				m.violate("monitor", fmt.Sprintf("M-frozen: store to frozen %s at offset %d", b.name, addr-b.base), nil)
			}
		}
		if b.published {
			m.violate("monitor", fmt.Sprintf("C08 store to memory already published through an atomic pointer (%s, offset %d): readers may observe it", b.name, addr-b.base), nil)
		}
		if b.guard != 0 && !m.holds(b.guard) {
			m.violate("monitor", fmt.Sprintf("C08 write to lock-protected shared state (%s) without holding its mutex", b.name), nil)
		}
		if b.readonly {
			m.violate("fault", fmt.Sprintf("store to read-only %s", b.name), nil)
			panic(&pathEnd{"fault", "store to read-only memory"})
		}
		b = m.wblock(b)
	} else if b.garbage {
		b = m.wblock(b)
	}
	if m.sched != nil {
		m.raceAccess(addr, n, write, what)
	}
	return b, int(addr - b.base)
}

func describeNear(h *Heap, addr uint64) string {
	i := sort.Search(len(h.blocks), func(i int) bool { return h.blocks[i].base > addr }) - 1
	if i >= 0 {
		b := h.blocks[i]
		return fmt.Sprintf("nearest below: %s +%d", b.String(), addr-b.base)
	}
	return "below heap"
}

func (m *Machine) loadBits(p *Term, n int) *Term {
	p = m.simp(p)
	if !p.IsConst() {
		return m.loadIndexed(p, n)
	}
	return m.loadBitsC(p, n)
}

// loadBitsC: load with concretisation of a symbolic address.
func (m *Machine) loadBitsC(p *Term, n int) *Term {
	b, off := m.deref(p, n, false, "load")
	return m.rawLoad(b, off, n)
}

func (m *Machine) storeBits(p *Term, t *Term, n int) {
	p = m.simp(p)
	if !p.IsConst() && m.storeIndexed(p, t, n) {
		return
	}
	b, off := m.deref(p, n, true, "store")
	m.rawStore(b, off, t, n)
}

func (m *Machine) addOff(p *Term, off int64) *Term {
	if off == 0 {
		return p
	}
	return m.ctx.BvAdd(p, m.ctx.Const(uint64(off), 64))
}

func (m *Machine) load(p *Term, t types.Type) Value {
	c := m.ctx
	switch u := t.Underlying().(type) {
	case *types.Basic:
		switch {
		case u.Info()&types.IsString != 0:
			return Agg{m.loadBits(p, 8), m.loadBits(m.addOff(p, 8), 8)}
		case u.Info()&types.IsBoolean != 0:
			v := m.loadBits(p, 1)
			return c.Not(c.Eq(v, c.Const(0, 8)))
		case u.Info()&types.IsComplex != 0:
			h := m.sizeof(u) / 2
			return Agg{m.loadBits(p, h), m.loadBits(m.addOff(p, int64(h)), h)}
		}
		return m.loadBits(p, m.sizeof(u))
	case *types.Pointer, *types.Map, *types.Chan, *types.Signature:
		return m.loadBits(p, 8)
	case *types.Slice:
		return Agg{m.loadBits(p, 8), m.loadBits(m.addOff(p, 8), 8), m.loadBits(m.addOff(p, 16), 8)}
	case *types.Interface:
		return Agg{m.loadBits(p, 8), m.loadBits(m.addOff(p, 8), 8)}
	case *types.Struct:
		offs := m.fieldOffsets(u)
		a := make(Agg, u.NumFields())
		for i := range a {
			a[i] = m.load(m.addOff(p, offs[i]), u.Field(i).Type())
		}
		return a
	case *types.Array:
		es := int64(m.sizeof(u.Elem()))
		a := make(Agg, int(u.Len()))
		for i := range a {
			a[i] = m.load(m.addOff(p, es*int64(i)), u.Elem())
		}
		return a
	}
	m.unsupported("load of %s", t)
	return nil
}

func (m *Machine) store(p *Term, t types.Type, v Value) {
	c := m.ctx
	switch u := t.Underlying().(type) {
	case *types.Basic:
		switch {
		case u.Info()&types.IsString != 0:
			a := v.(Agg)
			m.storeBits(p, a[0].(*Term), 8)
			m.storeBits(m.addOff(p, 8), a[1].(*Term), 8)
			return
		case u.Info()&types.IsBoolean != 0:
			m.storeBits(p, c.Ite(v.(*Term), c.Const(1, 8), c.Const(0, 8)), 1)
			return
		case u.Info()&types.IsComplex != 0:
			h := m.sizeof(u) / 2
			a := v.(Agg)
			m.storeBits(p, a[0].(*Term), h)
			m.storeBits(m.addOff(p, int64(h)), a[1].(*Term), h)
			return
		}
		m.storeBits(p, v.(*Term), m.sizeof(u))
		return
	case *types.Pointer, *types.Map, *types.Chan, *types.Signature:
		m.storeBits(p, v.(*Term), 8)
		return
	case *types.Slice:
		a := v.(Agg)
		for i := 0; i < 3; i++ {
			m.storeBits(m.addOff(p, int64(8*i)), a[i].(*Term), 8)
		}
		return
	case *types.Interface:
		a := v.(Agg)
		for i := 0; i < 2; i++ {
			m.storeBits(m.addOff(p, int64(8*i)), a[i].(*Term), 8)
		}
		return
	case *types.Struct:
		offs := m.fieldOffsets(u)
		a := v.(Agg)
		for i := range a {
			m.store(m.addOff(p, offs[i]), u.Field(i).Type(), a[i])
		}
		return
	case *types.Array:
		es := int64(m.sizeof(u.Elem()))
		a := v.(Agg)
		for i := range a {
			m.store(m.addOff(p, es*int64(i)), u.Elem(), a[i])
		}
		return
	}
	m.unsupported("store of %s", t)
}

// copyBytes copies n bytes (n concrete) preserving symbolic contents.
func (m *Machine) copyBytes(dst, src *Term, n int) {
	if n == 0 {
		return
	}
	sb, soff := m.deref(src, n, false, "copy-src")
	// read everything first (memmove semantics)
	chunks := make([]*Term, 0, n/8+1)
	sizes := make([]int, 0, n/8+1)
	for i := 0; i < n; {
		k := 8
		if n-i < 8 {
			k = n - i
		}
		chunks = append(chunks, m.rawLoad(sb, soff+i, k))
		sizes = append(sizes, k)
		i += k
	}
	db, doff := m.deref(dst, n, true, "copy-dst")
	pos := 0
	for i, t := range chunks {
		m.rawStore(db, doff+pos, t, sizes[i])
		pos += sizes[i]
	}
}

// bytesOf reads n concrete bytes; ok=false if any is symbolic.
func (m *Machine) bytesOf(p *Term, n int) ([]byte, bool) {
	if n == 0 {
		return nil, true
	}
	b, off := m.deref(p, n, false, "read")
	if b.hasSym(off, n) {
		out := make([]byte, n)
		for i := 0; i < n; i++ {
			t := m.rawLoad(b, off+i, 1)
			if !t.IsConst() {
				return nil, false
			}
			out[i] = byte(t.Val)
		}
		return out, true
	}
	return append([]byte(nil), b.data[off:off+n]...), true
}

// goString converts a guest string value to a host string (must be concrete).
func (m *Machine) goString(v Value) (string, bool) {
	a := v.(Agg)
	ln := m.simp(a[1].(*Term))
	if !ln.IsConst() {
		return "", false
	}
	if ln.Val == 0 {
		return "", true
	}
	bs, ok := m.bytesOf(a[0].(*Term), int(ln.Val))
	if !ok {
		return "", false
	}
	return string(bs), true
}

func (m *Machine) mustGoString(v Value, what string) string {
	s, ok := m.goString(v)
	if !ok {
		m.unsupported("symbolic string where concrete needed: %s", what)
	}
	return s
}

// mkString interns a host string as a read-only guest string.
func (m *Machine) mkString(s string) Value {
	c := m.ctx
	if s == "" {
		return Agg{c.Const(0, 64), c.Const(0, 64)}
	}
	if a, ok := m.strs[s]; ok {
		return Agg{c.Const(a, 64), c.Const(uint64(len(s)), 64)}
	}
	b := m.newBlock(len(s), 1, "string")
	copy(b.data, s)
	b.readonly = true
	b.owner = "const"
	m.strs[s] = b.base
	return Agg{c.Const(b.base, 64), c.Const(uint64(len(s)), 64)}
}

// allocObj allocates a zeroed typed object (n elements of t).
func (m *Machine) allocObj(t types.Type, n int, name string) *Block {
	sz := m.sizeof(t) * n
	b := m.newBlock(sz, m.alignof(t), name)
	b.typ = t
	b.nelem = n
	b.owner = m.owner
	m.allocSeq++
	b.seq = m.allocSeq
	return b
}

func (m *Machine) ptr(b *Block) *Term { return m.ctx.Const(b.base, 64) }

// findSym: address inside the reserved range of a symbolic-size block (beyond its current physical size).
func (m *Machine) findSym(addr uint64) *Block {
	h := &m.heap
	i := sort.Search(len(h.blocks), func(i int) bool { return h.blocks[i].base > addr }) - 1
	if i < 0 {
		return nil
	}
	b := h.blocks[i]
	if b.sizeTerm != nil && addr < b.base+uint64(m.cfg.MaxAlloc) {
		return b
	}
	return nil
}
