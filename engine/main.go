package main

import (
	"encoding/json"
	"flag"
	"fmt"
	"go/types"
	"os"
	"path/filepath"
	"runtime/pprof"
	"sort"
	"strings"
	"sync"
	"time"

	"golang.org/x/tools/go/packages"
	"golang.org/x/tools/go/ssa"
	"golang.org/x/tools/go/ssa/ssautil"
)

type typesType = types.Type

type JobsFile struct {
	Jobs []*Job `json:"jobs"`
}

type Output struct {
	LoadS    float64      `json:"load_s"`
	WallS    float64      `json:"wall_s"`
	Results  []*JobResult `json:"results"`
	Packages []string     `json:"packages"`
}

func loadProgram(repo, overlayDir string, patterns []string) (*Program, error) {
	overlay := map[string][]byte{}
	if overlayDir != "" {
		// overlayDir mirrors the repository layout: overlayDir/<rel path> => repo/<rel path>
		err := filepath.Walk(overlayDir, func(p string, info os.FileInfo, err error) error {
			if err != nil || info.IsDir() || !strings.HasSuffix(p, ".go") {
				return err
			}
			rel, _ := filepath.Rel(overlayDir, p)
			data, err := os.ReadFile(p)
			if err != nil {
				return err
			}
			overlay[filepath.Join(repo, rel)] = data
			return nil
		})
		if err != nil {
			return nil, err
		}
	}
	cfg := &packages.Config{
		Mode:    packages.LoadAllSyntax,
		Dir:     repo,
		Overlay: overlay,
		Env:     append(os.Environ(), "GOFLAGS=-mod=mod", "GOPROXY=off", "GOSUMDB=off", "GOTOOLCHAIN=local"),
	}
	pkgs, err := packages.Load(cfg, patterns...)
	if err != nil {
		return nil, err
	}
	nerr := 0
	packages.Visit(pkgs, nil, func(p *packages.Package) {
		for _, e := range p.Errors {
			fmt.Fprintln(os.Stderr, "load error:", e)
			nerr++
		}
	})
	if nerr > 0 {
		return nil, fmt.Errorf("%d package load errors", nerr)
	}
	prog, _ := ssautil.AllPackages(pkgs, ssa.InstantiateGenerics)
	prog.Build()
	P := &Program{prog: prog, fset: prog.Fset, sizes: types.SizesFor("gc", "amd64"), pkgs: map[string]*ssa.Package{}}
	for _, p := range prog.AllPackages() {
		P.pkgs[p.Pkg.Path()] = p
	}
	rt := P.lookupType("reflect", "rtype")
	P.rtypeTyp = types.NewPointer(rt)
	P.models = buildModels(P)
	// sync.Pool.New offset
	pool := P.lookupType("sync", "Pool").Underlying().(*types.Struct)
	fs := make([]*types.Var, pool.NumFields())
	for i := range fs {
		fs[i] = pool.Field(i)
	}
	offs := P.sizes.Offsetsof(fs)
	for i := range fs {
		if fs[i].Name() == "New" {
			P.poolNewOff = offs[i]
		}
	}
	if io := P.pkgs["io"]; io != nil {
		if g, ok := io.Members["ErrShortBuffer"].(*ssa.Global); ok {
			P.ioErrShortBuffer = g
		}
	}
	return P, nil
}

func main() {
	repo := flag.String("repo", "/repo", "repository root")
	overlay := flag.String("overlay", "", "directory mirroring repo layout with harness files")
	jobsPath := flag.String("jobs", "", "jobs JSON file")
	outPath := flag.String("out", "", "results JSON file")
	workers := flag.Int("workers", 16, "parallel jobs")
	pats := flag.String("patterns", "./...", "comma separated package patterns to load")
	inits := flag.String("init", "", "comma separated extra package paths whose init is executed")
	dump := flag.String("dump", "", "dump SSA of function pkg.Func and exit")
	cpuprof := flag.String("cpuprofile", "", "write CPU profile")
	selft := flag.Int("selftest", 0, "validate the term normaliser against z3 on N random cases and exit")
	seed := flag.Int64("seed", 1, "seed for -selftest")
	budget := flag.Int("budget", 0, "global wall-clock budget in seconds: jobs stop (inconclusive) when it is used up, results are still written")
	flag.Parse()
	if *budget > 0 {
		globalDeadline = time.Now().Add(time.Duration(*budget) * time.Second)
	}
	if *selft > 0 {
		q, f, msgs := selftest(*selft, *seed)
		fmt.Printf("{\"cases\": %d, \"solver_queries\": %d, \"disagreements\": %d}\n", *selft, q, f)
		for _, m := range msgs {
			fmt.Fprintln(os.Stderr, m)
		}
		if f > 0 {
			os.Exit(1)
		}
		return
	}
	if *cpuprof != "" {
		f, _ := os.Create(*cpuprof)
		pprof.StartCPUProfile(f)
		defer pprof.StopCPUProfile()
	}

	t0 := time.Now()
	P, err := loadProgram(*repo, *overlay, strings.Split(*pats, ","))
	if err != nil {
		fmt.Fprintln(os.Stderr, "load:", err)
		os.Exit(2)
	}
	P.initPkgs = []string{
		"io",
		"github.com/cloudwego/gopkg/protocol/thrift",
		"github.com/cloudwego/frugal/internal/opts",
		"github.com/cloudwego/frugal/internal/defs",
		"github.com/cloudwego/frugal/internal/reflect",
		"github.com/cloudwego/frugal",
		vrtPath,
	}
	if *inits != "" {
		P.initPkgs = append(P.initPkgs, strings.Split(*inits, ",")...)
	}
	P.onPublish = P.findFunc("github.com/cloudwego/frugal/internal/reflect.VerifOnPublish")
	P.initSet = map[string]bool{}
	for _, p := range P.initPkgs {
		P.initSet[p] = true
	}
	loadS := time.Since(t0).Seconds()
	if *dump != "" {
		f := P.findFunc(*dump)
		if f == nil {
			fmt.Fprintln(os.Stderr, "not found")
			os.Exit(2)
		}
		f.WriteTo(os.Stdout)
		return
	}
	var jf JobsFile
	data, err := os.ReadFile(*jobsPath)
	if err != nil {
		fmt.Fprintln(os.Stderr, err)
		os.Exit(2)
	}
	if err := json.Unmarshal(data, &jf); err != nil {
		fmt.Fprintln(os.Stderr, err)
		os.Exit(2)
	}
	out := &Output{LoadS: loadS}
	for p := range P.pkgs {
		if strings.Contains(p, "cloudwego") {
			out.Packages = append(out.Packages, p)
		}
	}
	sort.Strings(out.Packages)
	results := make([]*JobResult, len(jf.Jobs))
	var wg sync.WaitGroup
	sem := make(chan struct{}, *workers)
	for i, j := range jf.Jobs {
		wg.Add(1)
		go func(i int, j *Job) {
			defer wg.Done()
			sem <- struct{}{}
			defer func() { <-sem }()
			results[i] = runJob(P, j)
			r := results[i]
			fmt.Fprintf(os.Stderr, "[%s] paths=%d viol=%d inconc=%d q=%d (%.1fs solver) wall=%.1fs %s\n",
				r.ID, r.Paths, len(r.Violations), len(r.Inconclusive), r.Queries, r.SolverS, r.WallS, firstLine(r.Error))
		}(i, j)
	}
	wg.Wait()
	out.Results = results
	out.WallS = time.Since(t0).Seconds()
	enc, _ := json.MarshalIndent(out, "", " ")
	if *outPath == "" {
		os.Stdout.Write(enc)
	} else {
		os.WriteFile(*outPath, enc, 0o644)
	}
}

func firstLine(s string) string {
	if i := strings.Index(s, "\n"); i >= 0 {
		return s[:i]
	}
	return s
}
