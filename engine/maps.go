package main

// Go maps: an hmap block whose first word is the live count (what frugal's
// maplen hack reads) plus an ordered entry list; every entry owns a key cell
// block and a value cell block so iterators can hand out stable pointers.

import (
	"go/types"

	"golang.org/x/tools/go/ssa"
)

type mapEntry struct {
	k, v uint64 // addresses of key / value cells
	dead bool
}

type MapObj struct {
	kt, vt  types.Type
	entries []mapEntry
	reverse bool // iterate in reverse insertion order (order-independence check)
}

func (o *MapObj) clone() *MapObj {
	n := *o
	n.entries = append([]mapEntry(nil), o.entries...)
	return &n
}

const hmapSize = 48

func (m *Machine) newMap(t types.Type) *Term {
	mt := t.Underlying().(*types.Map)
	b := m.newBlock(hmapSize, 8, "map "+t.String())
	b.kind = bkMap
	b.owner = m.owner
	b.typ = nil
	b.mapobj = &MapObj{kt: mt.Key(), vt: mt.Elem(), reverse: m.cfg.MapReverse}
	m.allocSeq++
	b.seq = m.allocSeq
	return m.ptr(b)
}

func (m *Machine) mapBlock(p *Term, write bool) *Block {
	p = m.simp(p)
	var addr uint64
	if p.IsConst() {
		addr = p.Val
	} else {
		addr = m.concretize(p, "map pointer")
	}
	if addr == 0 {
		return nil
	}
	b := m.heap.find(addr)
	if b == nil || b.kind != bkMap || b.base != addr {
		m.violate("fault", "map operation on a non-map pointer", nil)
		panic(&pathEnd{"fault", "bad map pointer"})
	}
	if m.sched != nil {
		m.raceAccess(b.base, 8, write, "map operation")
	}
	if b.guard != 0 && !m.holds(b.guard) {
		m.violate("monitor", "C08 access to lock-protected shared map ("+b.name+") without holding its mutex", nil)
	}
	if write {
		if b.frozen && m.frozenOn {
			if b.owner == "setup" || b.owner == "init" || b.owner == "global" {
				m.violate("monitor", "C08 steady-state call writes a shared cache map without synchronisation ("+b.name+")", nil)
			} else {
				m.violate("monitor", "M-frozen: write to frozen map "+b.name, nil)
			}
		}
		b = m.wblock(b)
	}
	return b
}

func (m *Machine) mapLen(p *Term) *Term {
	b := m.mapBlock(p, false)
	if b == nil {
		return m.ctx.Const(0, 64)
	}
	return m.rawLoad(b, 0, 8)
}

func (m *Machine) setCount(b *Block) {
	n := 0
	for _, e := range b.mapobj.entries {
		if !e.dead {
			n++
		}
	}
	m.rawStore(b, 0, m.ctx.Const(uint64(n), 64), 8)
}

// mapLayout: the Go runtime lays map buckets out from the key and element sizes of the map type an operation is
// compiled with. Code that reinterprets a map as another map type (frugal's append fast paths) only works if
// those sizes (and the key kind, for hashing) agree with the type the map was made with; otherwise the native
// operation reads other slots' bytes. The engine's entry-list model would hide that, so it is a fault here.
func (m *Machine) mapLayout(b *Block, st types.Type, what string) {
	mt, ok := st.Underlying().(*types.Map)
	if !ok || b == nil {
		return
	}
	o := b.mapobj
	if what == "range" && len(o.orderedLive()) < 2 {
		// slot 0 of a bucket is at the same offset for every element size: a single entry is still read correctly
		return
	}
	if m.sizeof(mt.Key()) != m.sizeof(o.kt) || m.sizeof(mt.Elem()) != m.sizeof(o.vt) {
		m.violate("fault", "M-maplayout: "+what+" on a map made as map["+o.kt.String()+"]"+o.vt.String()+" through the type "+st.String()+
			" (different key/element size: the runtime bucket layout does not match)", nil)
		panic(&pathEnd{"fault", "map layout"})
	}
}

// keyEq: Go map-key equality of a value against the key stored in an entry.
func (m *Machine) keyEq(kt types.Type, key Value, e mapEntry) *Term {
	stored := m.load(m.ctx.Const(e.k, 64), kt)
	return m.equal(kt, key, stored)
}

// mapFind returns the index of the entry matching key (forking on symbolic equality) or -1.
func (m *Machine) mapFind(b *Block, key Value) int {
	o := b.mapobj
	for i, e := range o.entries {
		if e.dead {
			continue
		}
		if m.branch(m.keyEq(o.kt, key, e)) {
			return i
		}
	}
	return -1
}

func (m *Machine) mapUpdate(p *Term, mt *types.Map, key, val Value) {
	b := m.mapBlock(p, true)
	if b == nil {
		panic(&GuestPanic{runtime: true, msg: "assignment to entry in nil map", site: m.site()})
	}
	m.mapLayout(b, mt, "assignment")
	i := m.mapFind(b, key)
	b = m.wblock(b)
	o := b.mapobj
	if i >= 0 {
		m.store(m.ctx.Const(o.entries[i].v, 64), o.vt, val)
		return
	}
	kb := m.allocObj(o.kt, 1, "map key cell")
	vb := m.allocObj(o.vt, 1, "map value cell")
	kb.owner, vb.owner = b.owner, b.owner
	m.store(m.ptr(kb), o.kt, key)
	m.store(m.ptr(vb), o.vt, val)
	o.entries = append(o.entries, mapEntry{k: kb.base, v: vb.base})
	m.setCount(b)
}

func (m *Machine) mapDelete(p *Term, mt *types.Map, key Value) {
	b := m.mapBlock(p, true)
	if b == nil {
		return
	}
	i := m.mapFind(b, key)
	if i < 0 {
		return
	}
	b = m.wblock(b)
	b.mapobj.entries[i].dead = true
	m.setCount(b)
}

func (m *Machine) lookup(fr *Frame, x *ssa.Lookup) Value {
	c := m.ctx
	if mt, ok := x.X.Type().Underlying().(*types.Map); ok {
		b := m.mapBlock(m.term(fr, x.X), false)
		m.mapLayout(b, x.X.Type(), "lookup")
		var res Value
		found := false
		if b != nil {
			if i := m.mapFind(b, m.get(fr, x.Index)); i >= 0 {
				res = m.load(c.Const(b.mapobj.entries[i].v, 64), b.mapobj.vt)
				found = true
			}
		}
		if !found {
			res = m.zero(mt.Elem())
		}
		if x.CommaOk {
			return Agg{res, c.Bool(found)}
		}
		return res
	}
	// string index
	s := m.get(fr, x.X).(Agg)
	idx := m.toInt64(m.term(fr, x.Index), x.Index.Type())
	if !m.branch(c.Ult(idx, s[1].(*Term))) {
		panic(&GuestPanic{runtime: true, msg: "index out of range", site: m.site()})
	}
	return m.loadByteAt(s[0].(*Term), idx)
}

// iterator state lives in an iterator block: {map addr, next index}
type iterState struct{}

func (m *Machine) rangeInit(fr *Frame, x *ssa.Range) Value {
	c := m.ctx
	b := m.newBlock(24, 8, "range iterator")
	b.owner = "engine"
	if _, ok := x.X.Type().Underlying().(*types.Map); ok {
		mp := m.term(fr, x.X)
		m.rawStore(b, 0, mp, 8)
		m.mapLayout(m.mapBlock(mp, false), x.X.Type(), "range")
	} else {
		s := m.get(fr, x.X).(Agg)
		m.rawStore(b, 0, s[0].(*Term), 8)
		m.rawStore(b, 16, s[1].(*Term), 8)
	}
	m.rawStore(b, 8, c.Const(0, 64), 8)
	return m.ptr(b)
}

// orderedIndex maps iteration step i to an entry index honouring o.reverse.
func (o *MapObj) orderedLive() []int {
	var idx []int
	for i, e := range o.entries {
		if !e.dead {
			idx = append(idx, i)
		}
	}
	if o.reverse {
		for i, j := 0, len(idx)-1; i < j; i, j = i+1, j-1 {
			idx[i], idx[j] = idx[j], idx[i]
		}
	}
	return idx
}

func (m *Machine) rangeNext(fr *Frame, x *ssa.Next) Value {
	c := m.ctx
	it, _ := m.deref(m.term(fr, x.Iter), 24, true, "iterator")
	tup := x.Type().(*types.Tuple)
	if x.IsString {
		m.unsupported("range over string")
	}
	mp := m.rawLoad(it, 0, 8)
	pos := int(m.rawLoad(it, 8, 8).Val)
	b := m.mapBlock(mp, false)
	kt, vt := tup.At(1).Type(), tup.At(2).Type()
	if b == nil {
		return Agg{c.False, m.zeroOrNil(kt), m.zeroOrNil(vt)}
	}
	live := b.mapobj.orderedLive()
	if pos >= len(live) {
		return Agg{c.False, m.zeroOrNil(kt), m.zeroOrNil(vt)}
	}
	e := b.mapobj.entries[live[pos]]
	m.rawStore(it, 8, c.Const(uint64(pos+1), 64), 8)
	var kv, vv Value
	// static types of the range statement are used for loading (frugal reinterprets map types)
	if isInvalid(kt) {
		kv = nil
	} else {
		kv = m.load(c.Const(e.k, 64), kt)
	}
	if isInvalid(vt) {
		vv = nil
	} else {
		vv = m.load(c.Const(e.v, 64), vt)
	}
	return Agg{c.True, kv, vv}
}

func isInvalid(t types.Type) bool {
	b, ok := t.(*types.Basic)
	return ok && b.Kind() == types.Invalid
}

func (m *Machine) zeroOrNil(t types.Type) Value {
	if isInvalid(t) {
		return nil
	}
	return m.zero(t)
}
