package main

// Byte-addressed memory: blocks at concrete, well-separated base addresses.
// Concrete bytes live in data; symbolic contents live in cells (term + byte
// width, little-endian) indexed by cellAt.

import (
	"fmt"
	"go/types"
	"sort"

	"golang.org/x/tools/go/ssa"
)

type BlockKind uint8

const (
	bkData BlockKind = iota
	bkFunc
	bkType
	bkMap
)

type cell struct {
	t *Term
	n int // bytes
}

type Block struct {
	id    int
	base  uint64
	size  int
	data  []byte
	cells map[int]cell
	// cellAt[i] = start offset of the cell covering byte i, or -1
	cellAt []int32
	// garbage: bytes never written read as fresh symbolic values
	garbage bool
	defined []bool

	kind      BlockKind
	typ       types.Type // element type for typed heap objects; nil => noscan/untyped
	nelem     int
	noscan    bool
	owner     string
	frozen    bool
	released  bool
	readonly  bool
	epoch     int
	name      string
	seq       int    // allocation sequence number within owner class
	published bool   // reachable through an atomic pointer: immutable from then on (copy-on-write discipline)
	guard     uint64 // address of the mutex that must be held to access this block / map (0 = none)
	sizeTerm  *Term  // symbolic logical size (physical storage grows on demand); nil = concrete

	fn       *ssa.Function
	bindings []Value
	rtype    types.Type
	mapobj   *MapObj
}

func (b *Block) clone(epoch int) *Block {
	nb := *b
	nb.epoch = epoch
	nb.data = append([]byte(nil), b.data...)
	if b.cells != nil {
		nb.cells = make(map[int]cell, len(b.cells))
		for k, v := range b.cells {
			nb.cells[k] = v
		}
		nb.cellAt = append([]int32(nil), b.cellAt...)
	}
	if b.defined != nil {
		nb.defined = append([]bool(nil), b.defined...)
	}
	if b.mapobj != nil {
		nb.mapobj = b.mapobj.clone()
	}
	return &nb
}

type Heap struct {
	blocks []*Block // sorted by base
	next   uint64
}

const heapStart = 0x0000_00c0_0000_0000

func (h *Heap) find(addr uint64) *Block {
	i := sort.Search(len(h.blocks), func(i int) bool { return h.blocks[i].base > addr }) - 1
	if i < 0 {
		return nil
	}
	b := h.blocks[i]
	// one-past-the-end addresses resolve to the block (zero-size accesses)
	if addr <= b.base+uint64(b.size) {
		return b
	}
	return nil
}

func (h *Heap) index(b *Block) int {
	i := sort.Search(len(h.blocks), func(i int) bool { return h.blocks[i].base >= b.base })
	return i
}

func (m *Machine) newBlock(size int, align int, name string) *Block {
	if align < 16 {
		align = 16
	}
	h := &m.heap
	base := (h.next + uint64(align) - 1) &^ (uint64(align) - 1)
	gap := uint64(4096)
	h.next = base + uint64(size) + gap
	b := &Block{id: len(h.blocks), base: base, size: size, data: make([]byte, size), epoch: m.epoch, name: name}
	h.blocks = append(h.blocks, b)
	m.stats.Allocs++
	return b
}

// wblock returns a writable version of b (copy-on-write across path epochs).
func (m *Machine) wblock(b *Block) *Block {
	if b.epoch == m.epoch {
		return b
	}
	nb := b.clone(m.epoch)
	m.heap.blocks[m.heap.index(b)] = nb
	return nb
}

func (b *Block) ensureCells() {
	if b.cells == nil {
		b.cells = map[int]cell{}
		b.cellAt = make([]int32, b.size)
		for i := range b.cellAt {
			b.cellAt[i] = -1
		}
	}
}

// clearRange removes symbolic cells overlapping [off,off+n), keeping the
// non-overlapping parts of partially covered cells.
func (m *Machine) clearRange(b *Block, off, n int) {
	if b.cells == nil {
		return
	}
	c := m.ctx
	for i := off; i < off+n; {
		s := b.cellAt[i]
		if s < 0 {
			i++
			continue
		}
		cl := b.cells[int(s)]
		start, end := int(s), int(s)+cl.n
		delete(b.cells, start)
		for j := start; j < end; j++ {
			b.cellAt[j] = -1
		}
		// keep [start, off) and [off+n, end)
		if start < off {
			k := off - start
			m.putCell(b, start, c.Extract(cl.t, 8*k-1, 0), k)
		}
		if end > off+n {
			k0 := off + n - start
			m.putCell(b, off+n, c.Extract(cl.t, 8*cl.n-1, 8*k0), end-(off+n))
		}
		i = end
	}
}

func (m *Machine) putCell(b *Block, off int, t *Term, n int) {
	if t.IsConst() {
		for i := 0; i < n; i++ {
			b.data[off+i] = byte(t.Val >> uint(8*i))
		}
		return
	}
	// split concat-with-constants into smaller cells to keep constants concrete
	if t.Op == OpConcat && n > 1 {
		// per-byte-aligned pieces from the LSB side
		pos := 0
		ok := true
		for i := len(t.Args) - 1; i >= 0; i-- {
			if t.Args[i].W%8 != 0 {
				ok = false
				break
			}
		}
		if ok {
			for i := len(t.Args) - 1; i >= 0; i-- {
				a := t.Args[i]
				m.putCell(b, off+pos, a, a.W/8)
				pos += a.W / 8
			}
			return
		}
	}
	b.ensureCells()
	b.cells[off] = cell{t, n}
	for i := 0; i < n; i++ {
		b.cellAt[off+i] = int32(off)
	}
}

// rawStore writes n bytes of term t (width 8n) at off. No monitors.
func (m *Machine) rawStore(b *Block, off int, t *Term, n int) {
	if t.W != 8*n {
		panic(fmt.Sprintf("rawStore width %d for %d bytes", t.W, n))
	}
	m.clearRange(b, off, n)
	if b.defined != nil {
		for i := 0; i < n; i++ {
			b.defined[off+i] = true
		}
	}
	m.putCell(b, off, t, n)
}

// rawLoad reads n bytes (n<=8) at off as a term of width 8n.
func (m *Machine) rawLoad(b *Block, off int, n int) *Term {
	c := m.ctx
	if b.garbage {
		for i := 0; i < n; i++ {
			if !b.defined[off+i] {
				// uninitialised memory reads as an arbitrary (fresh) byte;
				// callers pass a writable block for garbage blocks
				v := m.fresh("garb", 8)
				m.clearRange(b, off+i, 1)
				b.defined[off+i] = true
				m.putCell(b, off+i, v, 1)
			}
		}
	}
	if b.cells == nil {
		var v uint64
		for i := n - 1; i >= 0; i-- {
			v = v<<8 | uint64(b.data[off+i])
		}
		return c.Const(v, 8*n)
	}
	// MSB first = highest address first
	var ss []seg
	for i := off + n - 1; i >= off; {
		s := b.cellAt[i]
		if s < 0 {
			ss = append(ss, seg{nil, 7, 0, uint64(b.data[i])})
			i--
			continue
		}
		cl := b.cells[int(s)]
		lo := int(s)
		if lo < off {
			lo = off
		}
		// bytes [lo, i] of the cell
		hiBit := 8*(i-int(s)) + 7
		loBit := 8 * (lo - int(s))
		ss = append(ss, c.segs(c.Extract(cl.t, hiBit, loBit))...)
		i = lo - 1
	}
	return c.fromSegs(ss)
}

// hasSym reports whether [off,off+n) contains symbolic cells.
func (b *Block) hasSym(off, n int) bool {
	if b.garbage {
		return true
	}
	if b.cells == nil {
		return false
	}
	for i := off; i < off+n; i++ {
		if b.cellAt[i] >= 0 {
			return true
		}
	}
	return false
}

func (b *Block) String() string {
	return fmt.Sprintf("block#%d(%s,%s,base=%#x,size=%d)", b.id, b.name, b.owner, b.base, b.size)
}
