package main

// Environment models: reflect, sync, fmt, strings, strconv, sort, os, runtime.
// Every model listed here is part of the claim and is reported in evidence
// (stats.ModelsHit).

import (
	"fmt"
	"go/types"
	"reflect"
	"sort"
	"strconv"
	"strings"

	"golang.org/x/tools/go/ssa"
)

type PoolState struct {
	items []Value // interface values
}

func (m *Machine) modelByPattern(fn *ssa.Function) Model {
	name := fn.String()
	if strings.HasPrefix(name, "(*sync/atomic.Pointer[") {
		switch {
		case strings.HasSuffix(name, ").Load"):
			return func(m *Machine, fr *Frame, args []Value) Value {
				return m.atomicLoad(args[0].(*Term))
			}
		case strings.HasSuffix(name, ").Store"):
			return func(m *Machine, fr *Frame, args []Value) Value {
				m.atomicStore(args[0].(*Term), args[1].(*Term))
				return nil
			}
		}
	}
	return nil
}

func boolTerm(m *Machine, b bool) *Term { return m.ctx.Bool(b) }

func (m *Machine) structFieldValue(st *types.Struct, i int, offs []int64) Value {
	c := m.ctx
	f := st.Field(i)
	pkgPath := ""
	if !f.Exported() && f.Pkg() != nil {
		pkgPath = f.Pkg().Path()
	}
	idx := m.allocObj(types.Typ[types.Int], 1, "StructField.Index")
	m.rawStore(idx, 0, c.Const(uint64(i), 64), 8)
	return Agg{
		m.mkString(f.Name()),
		m.mkString(pkgPath),
		m.rtypeIface(f.Type()),
		m.mkString(st.Tag(i)),
		c.Const(uint64(offs[i]), 64),
		Agg{m.ptr(idx), c.Const(1, 64), c.Const(1, 64)},
		c.Bool(f.Embedded()),
	}
}

func (m *Machine) zeroStructField() Value {
	c := m.ctx
	z := c.Const(0, 64)
	return Agg{Agg{z, z}, Agg{z, z}, Agg{z, z}, Agg{z, z}, z, Agg{z, z, z}, c.False}
}

func (m *Machine) poolNewOffset(poolPtrT types.Type) int64 {
	st := poolPtrT.Underlying().(*types.Pointer).Elem().Underlying().(*types.Struct)
	offs := m.fieldOffsets(st)
	for i := 0; i < st.NumFields(); i++ {
		if st.Field(i).Name() == "New" {
			return offs[i]
		}
	}
	panic("sync.Pool.New not found")
}

func buildModels(P *Program) map[string]Model {
	M := map[string]Model{}
	kindT := func(m *Machine, k reflect.Kind) Value { return m.ctx.Const(uint64(k), 64) }

	// ---------------- reflect package functions ----------------
	M["reflect.ValueOf"] = func(m *Machine, fr *Frame, a []Value) Value {
		return m.rvEncode(m.rvValueOf(a[0].(Agg)))
	}
	M["reflect.TypeOf"] = func(m *Machine, fr *Frame, a []Value) Value {
		ifc := a[0].(Agg)
		tw := m.simp(ifc[0].(*Term))
		if !tw.IsConst() {
			m.unsupported("reflect.TypeOf symbolic")
		}
		if tw.Val == 0 {
			return m.rtypeIface(nil)
		}
		return m.rtypeIface(m.typeAt(tw.Val))
	}
	M["reflect.New"] = func(m *Machine, fr *Frame, a []Value) Value {
		t := m.rtypeOf(a[0])
		b := m.allocObj(t, 1, "reflect.New("+typeString(t)+")")
		return m.rvEncode(rval{t: types.NewPointer(t), ptr: m.ptr(b), flag: uint64(reflect.Ptr)})
	}
	M["reflect.NewAt"] = func(m *Machine, fr *Frame, a []Value) Value {
		t := m.rtypeOf(a[0])
		return m.rvEncode(rval{t: types.NewPointer(t), ptr: a[1].(*Term), flag: uint64(reflect.Ptr)})
	}
	M["reflect.PtrTo"] = func(m *Machine, fr *Frame, a []Value) Value {
		return m.rtypeIface(types.NewPointer(m.rtypeOf(a[0])))
	}
	M["reflect.PointerTo"] = M["reflect.PtrTo"]
	M["reflect.Zero"] = func(m *Machine, fr *Frame, a []Value) Value {
		t := m.rtypeOf(a[0])
		if isDirectIface(t) {
			return m.rvEncode(rval{t: t, ptr: m.ctx.Const(0, 64), flag: uint64(kindOf(t))})
		}
		b := m.allocObj(t, 1, "reflect.Zero")
		return m.rvEncode(rval{t: t, ptr: m.ptr(b), flag: uint64(kindOf(t)) | flagIndir})
	}
	M["reflect.MakeMapWithSize"] = func(m *Machine, fr *Frame, a []Value) Value {
		t := m.rtypeOf(a[0])
		if _, ok := t.Underlying().(*types.Map); !ok {
			panic(&GuestPanic{msg: "reflect.MakeMapWithSize of non-map type", site: m.site()})
		}
		n := a[1].(*Term)
		if !m.branch(m.ctx.Sle(m.ctx.Const(0, 64), n)) {
			panic(&GuestPanic{msg: "reflect.MakeMapWithSize: negative size hint", site: m.site()})
		}
		m.noteAlloc(m.ctx.BvMul(n, m.ctx.Const(8, 64)), "MakeMapWithSize")
		mp := m.newMap(t)
		return m.rvEncode(rval{t: t, ptr: mp, flag: uint64(reflect.Map)})
	}
	M["reflect.MakeMap"] = func(m *Machine, fr *Frame, a []Value) Value {
		t := m.rtypeOf(a[0])
		return m.rvEncode(rval{t: t, ptr: m.newMap(t), flag: uint64(reflect.Map)})
	}
	M["reflect.DeepEqual"] = func(m *Machine, fr *Frame, a []Value) Value {
		// only used by frugal's start-up self test (testhack) on a freshly built map; assumed true
		return m.ctx.True
	}

	// ---------------- reflect.Value methods ----------------
	M["(reflect.Value).Kind"] = func(m *Machine, fr *Frame, a []Value) Value {
		r := m.rvDecode(a[0])
		return m.ctx.Const(r.flag&flagKindMask, 64)
	}
	M["(reflect.Value).IsValid"] = func(m *Machine, fr *Frame, a []Value) Value {
		return m.ctx.Bool(m.rvDecode(a[0]).flag != 0)
	}
	M["(reflect.Value).Type"] = func(m *Machine, fr *Frame, a []Value) Value {
		r := m.rvDecode(a[0])
		m.rvMust(r, "reflect.Value.Type")
		return m.rtypeIface(r.t)
	}
	M["(reflect.Value).CanAddr"] = func(m *Machine, fr *Frame, a []Value) Value {
		return m.ctx.Bool(m.rvDecode(a[0]).flag&flagAddr != 0)
	}
	M["(reflect.Value).CanSet"] = func(m *Machine, fr *Frame, a []Value) Value {
		f := m.rvDecode(a[0]).flag
		return m.ctx.Bool(f&flagAddr != 0 && f&(flagStickyRO|flagEmbedRO) == 0)
	}
	M["(reflect.Value).IsNil"] = func(m *Machine, fr *Frame, a []Value) Value {
		r := m.rvDecode(a[0])
		m.rvMust(r, "reflect.Value.IsNil", reflect.Chan, reflect.Func, reflect.Map, reflect.Ptr, reflect.UnsafePointer, reflect.Interface, reflect.Slice)
		switch kindOf(r.t) {
		case reflect.Interface, reflect.Slice:
			return m.ctx.Eq(m.loadBits(r.ptr, 8), m.ctx.Const(0, 64))
		}
		return m.ctx.Eq(m.rvPointerWord(r), m.ctx.Const(0, 64))
	}
	M["(reflect.Value).Elem"] = func(m *Machine, fr *Frame, a []Value) Value {
		r := m.rvDecode(a[0])
		m.rvMust(r, "reflect.Value.Elem", reflect.Ptr, reflect.Interface)
		if kindOf(r.t) == reflect.Interface {
			ifc := m.load(r.ptr, r.t).(Agg)
			x := m.rvValueOf(ifc)
			if x.t != nil {
				x.flag |= r.flag & (flagStickyRO | flagEmbedRO)
			}
			return m.rvEncode(x)
		}
		p := m.rvPointerWord(r)
		if ps := m.simp(p); ps.IsConst() && ps.Val == 0 {
			return m.rvEncode(rval{})
		} else if !ps.IsConst() {
			if m.branch(m.ctx.Eq(ps, m.ctx.Const(0, 64))) {
				return m.rvEncode(rval{})
			}
		}
		et := r.t.Underlying().(*types.Pointer).Elem()
		return m.rvEncode(rval{t: et, ptr: p, flag: r.flag&(flagStickyRO|flagEmbedRO) | flagIndir | flagAddr | uint64(kindOf(et))})
	}
	M["(reflect.Value).UnsafePointer"] = func(m *Machine, fr *Frame, a []Value) Value {
		r := m.rvDecode(a[0])
		m.rvMust(r, "reflect.Value.UnsafePointer", reflect.Ptr, reflect.Map, reflect.Chan, reflect.UnsafePointer, reflect.Func, reflect.Slice)
		if kindOf(r.t) == reflect.Slice {
			return m.loadBits(r.ptr, 8)
		}
		return m.rvPointerWord(r)
	}
	M["(reflect.Value).Pointer"] = M["(reflect.Value).UnsafePointer"]
	M["(reflect.Value).UnsafeAddr"] = func(m *Machine, fr *Frame, a []Value) Value {
		r := m.rvDecode(a[0])
		m.rvMust(r, "reflect.Value.UnsafeAddr")
		if r.flag&flagAddr == 0 {
			panic(&GuestPanic{msg: "reflect.Value.UnsafeAddr of unaddressable value", site: m.site()})
		}
		return r.ptr
	}
	M["(reflect.Value).Addr"] = func(m *Machine, fr *Frame, a []Value) Value {
		r := m.rvDecode(a[0])
		if r.flag&flagAddr == 0 {
			panic(&GuestPanic{msg: "reflect.Value.Addr of unaddressable value", site: m.site()})
		}
		return m.rvEncode(rval{t: types.NewPointer(r.t), ptr: r.ptr, flag: r.flag&(flagStickyRO|flagEmbedRO) | uint64(reflect.Ptr)})
	}
	setModel := func(zero bool) Model {
		return func(m *Machine, fr *Frame, a []Value) Value {
			r := m.rvDecode(a[0])
			m.rvMust(r, "reflect.Value.Set")
			if r.flag&flagAddr == 0 || r.flag&(flagStickyRO|flagEmbedRO) != 0 {
				panic(&GuestPanic{msg: "reflect.Value.Set using unaddressable or read-only value", site: m.site()})
			}
			n := m.sizeof(r.t)
			if zero {
				m.store(r.ptr, r.t, m.zero(r.t))
				return nil
			}
			x := m.rvDecode(a[1])
			m.rvMust(x, "reflect.Value.Set")
			if !types.AssignableTo(x.t, r.t) {
				panic(&GuestPanic{msg: "reflect.Set: value of type " + typeString(x.t) + " is not assignable to type " + typeString(r.t), site: m.site()})
			}
			if _, isI := r.t.Underlying().(*types.Interface); isI {
				m.store(r.ptr, r.t, m.rvInterface(x))
				return nil
			}
			if x.flag&flagIndir != 0 {
				m.copyBytes(r.ptr, x.ptr, n)
			} else {
				m.storeBits(r.ptr, x.ptr, 8)
			}
			return nil
		}
	}
	M["(reflect.Value).Set"] = setModel(false)
	M["(reflect.Value).SetZero"] = setModel(true)
	M["(reflect.Value).Interface"] = func(m *Machine, fr *Frame, a []Value) Value {
		return m.rvInterface(m.rvDecode(a[0]))
	}
	fieldOf := func(m *Machine, r rval, i int) rval {
		st, ok := r.t.Underlying().(*types.Struct)
		if !ok {
			panic(&GuestPanic{msg: "reflect: Field of non-struct type " + typeString(r.t), site: m.site()})
		}
		if i < 0 || i >= st.NumFields() {
			panic(&GuestPanic{msg: "reflect: Field index out of range", site: m.site()})
		}
		offs := m.fieldOffsets(st)
		f := st.Field(i)
		fl := r.flag&(flagStickyRO|flagIndir|flagAddr) | uint64(kindOf(f.Type()))
		if !f.Exported() {
			if f.Embedded() {
				fl |= flagEmbedRO
			} else {
				fl |= flagStickyRO
			}
		}
		return rval{t: f.Type(), ptr: m.addOff(r.ptr, offs[i]), flag: fl}
	}
	M["(reflect.Value).Field"] = func(m *Machine, fr *Frame, a []Value) Value {
		r := m.rvDecode(a[0])
		i := int(m.concretize(a[1].(*Term), "Field index"))
		return m.rvEncode(fieldOf(m, r, i))
	}
	M["(reflect.Value).NumField"] = func(m *Machine, fr *Frame, a []Value) Value {
		r := m.rvDecode(a[0])
		return m.ctx.Const(uint64(r.t.Underlying().(*types.Struct).NumFields()), 64)
	}
	M["(reflect.Value).FieldByIndex"] = func(m *Machine, fr *Frame, a []Value) Value {
		r := m.rvDecode(a[0])
		idx := a[1].(Agg)
		n := int(m.concretize(idx[1].(*Term), "FieldByIndex len"))
		for k := 0; k < n; k++ {
			i := int(int64(m.concretize(m.loadBits(m.addOff(idx[0].(*Term), int64(8*k)), 8), "FieldByIndex")))
			if k > 0 && kindOf(r.t) == reflect.Ptr {
				m.unsupported("FieldByIndex through embedded pointer")
			}
			r = fieldOf(m, r, i)
		}
		return m.rvEncode(r)
	}
	M["(reflect.Value).Len"] = func(m *Machine, fr *Frame, a []Value) Value {
		r := m.rvDecode(a[0])
		switch kindOf(r.t) {
		case reflect.Map:
			return m.mapLen(m.rvPointerWord(r))
		case reflect.Slice, reflect.String:
			return m.loadBits(m.addOff(r.ptr, 8), 8)
		case reflect.Array:
			return m.ctx.Const(uint64(r.t.Underlying().(*types.Array).Len()), 64)
		}
		panic(&GuestPanic{msg: "reflect: call of reflect.Value.Len on " + typeString(r.t), site: m.site()})
	}
	M["(reflect.Value).MapRange"] = func(m *Machine, fr *Frame, a []Value) Value {
		r := m.rvDecode(a[0])
		m.rvMust(r, "reflect.Value.MapRange", reflect.Map)
		// *MapIter{m Value; hiter hiter}; our iteration state: hiter word 2 = next position (+1), word 3 = map address
		mi := m.P.lookupType("reflect", "MapIter")
		b := m.allocObj(mi, 1, "reflect.MapIter")
		m.store(m.ptr(b), m.P.lookupType("reflect", "Value"), a[0])
		return m.ptr(b)
	}
	M["(*reflect.MapIter).Next"] = func(m *Machine, fr *Frame, a []Value) Value {
		c := m.ctx
		it := a[0].(*Term)
		valT := m.P.lookupType("reflect", "Value")
		hoff := int64(m.sizeof(valT)) // hiter follows m
		mv := m.rvDecode(m.load(it, valT))
		if mv.t == nil {
			panic(&GuestPanic{msg: "MapIter.Next called on an iterator that does not have an associated map Value", site: m.site()})
		}
		pos := int(m.concretize(m.loadBits(m.addOff(it, hoff+16), 8), "MapIter position"))
		b := m.mapBlock(m.rvPointerWord(mv), false)
		var live []int
		if b != nil {
			live = b.mapobj.orderedLive()
		}
		if pos >= len(live) {
			m.storeBits(m.addOff(it, hoff), c.Const(0, 64), 8)
			m.storeBits(m.addOff(it, hoff+8), c.Const(0, 64), 8)
			return c.False
		}
		e := b.mapobj.entries[live[pos]]
		m.storeBits(m.addOff(it, hoff), c.Const(e.k, 64), 8)
		m.storeBits(m.addOff(it, hoff+8), c.Const(e.v, 64), 8)
		m.storeBits(m.addOff(it, hoff+16), c.Const(uint64(pos+1), 64), 8)
		return c.True
	}
	M["(reflect.Value).SetMapIndex"] = func(m *Machine, fr *Frame, a []Value) Value {
		r := m.rvDecode(a[0])
		m.rvMust(r, "reflect.Value.SetMapIndex", reflect.Map)
		k, v := m.rvDecode(a[1]), m.rvDecode(a[2])
		mt := r.t.Underlying().(*types.Map)
		if k.t == nil || !types.AssignableTo(k.t, mt.Key()) {
			panic(&GuestPanic{msg: "reflect.Value.SetMapIndex: key type mismatch", site: m.site()})
		}
		kv := m.rvLoadAs(k, mt.Key())
		if v.t == nil {
			m.mapDelete(m.rvPointerWord(r), mt, kv)
			return nil
		}
		if !types.AssignableTo(v.t, mt.Elem()) {
			panic(&GuestPanic{msg: "reflect.Value.SetMapIndex: value type mismatch", site: m.site()})
		}
		vv := m.rvLoadAs(v, mt.Elem())
		m.mapUpdate(m.rvPointerWord(r), mt, kv, vv)
		return nil
	}
	M["(reflect.Value).Int"] = func(m *Machine, fr *Frame, a []Value) Value {
		r := m.rvDecode(a[0])
		v := m.rvLoadAs(r, r.t).(*Term)
		return m.ctx.SignExt(v, 64)
	}

	// ---------------- reflect.Type (dynamic type *reflect.rtype) ----------------
	rt := func(name string, f func(m *Machine, t types.Type, a []Value) Value) {
		M["(*reflect.rtype)."+name] = func(m *Machine, fr *Frame, a []Value) Value {
			return f(m, m.rtypeOf(a[0]), a)
		}
	}
	rt("Kind", func(m *Machine, t types.Type, a []Value) Value { return kindT(m, kindOf(t)) })
	rt("Elem", func(m *Machine, t types.Type, a []Value) Value {
		switch u := t.Underlying().(type) {
		case *types.Pointer:
			return m.rtypeIface(u.Elem())
		case *types.Slice:
			return m.rtypeIface(u.Elem())
		case *types.Array:
			return m.rtypeIface(u.Elem())
		case *types.Map:
			return m.rtypeIface(u.Elem())
		case *types.Chan:
			return m.rtypeIface(u.Elem())
		}
		panic(&GuestPanic{msg: "reflect: Elem of invalid type " + typeString(t), site: m.site()})
	})
	rt("Key", func(m *Machine, t types.Type, a []Value) Value {
		if u, ok := t.Underlying().(*types.Map); ok {
			return m.rtypeIface(u.Key())
		}
		panic(&GuestPanic{msg: "reflect: Key of non-map type " + typeString(t), site: m.site()})
	})
	rt("Len", func(m *Machine, t types.Type, a []Value) Value {
		if u, ok := t.Underlying().(*types.Array); ok {
			return m.ctx.Const(uint64(u.Len()), 64)
		}
		panic(&GuestPanic{msg: "reflect: Len of non-array type " + typeString(t), site: m.site()})
	})
	rt("Name", func(m *Machine, t types.Type, a []Value) Value { return m.mkString(typeName(t)) })
	rt("String", func(m *Machine, t types.Type, a []Value) Value { return m.mkString(typeString(t)) })
	rt("PkgPath", func(m *Machine, t types.Type, a []Value) Value {
		if n, ok := t.(*types.Named); ok && n.Obj().Pkg() != nil {
			return m.mkString(n.Obj().Pkg().Path())
		}
		return m.mkString("")
	})
	rt("Size", func(m *Machine, t types.Type, a []Value) Value { return m.ctx.Const(uint64(m.sizeof(t)), 64) })
	rt("Align", func(m *Machine, t types.Type, a []Value) Value { return m.ctx.Const(uint64(m.alignof(t)), 64) })
	rt("Comparable", func(m *Machine, t types.Type, a []Value) Value { return m.ctx.Bool(types.Comparable(t)) })
	rt("NumField", func(m *Machine, t types.Type, a []Value) Value {
		st, ok := t.Underlying().(*types.Struct)
		if !ok {
			panic(&GuestPanic{msg: "reflect: NumField of non-struct type " + typeString(t), site: m.site()})
		}
		return m.ctx.Const(uint64(st.NumFields()), 64)
	})
	rt("Field", func(m *Machine, t types.Type, a []Value) Value {
		st, ok := t.Underlying().(*types.Struct)
		if !ok {
			panic(&GuestPanic{msg: "reflect: Field of non-struct type " + typeString(t), site: m.site()})
		}
		i := int(int64(m.concretize(a[1].(*Term), "Type.Field index")))
		if i < 0 || i >= st.NumFields() {
			panic(&GuestPanic{msg: "reflect: Field index out of bounds", site: m.site()})
		}
		return m.structFieldValue(st, i, m.fieldOffsets(st))
	})
	rt("FieldByName", func(m *Machine, t types.Type, a []Value) Value {
		st, ok := t.Underlying().(*types.Struct)
		if !ok {
			panic(&GuestPanic{msg: "reflect: FieldByName of non-struct type " + typeString(t), site: m.site()})
		}
		name := m.mustGoString(a[1], "FieldByName")
		for i := 0; i < st.NumFields(); i++ {
			if st.Field(i).Name() == name {
				return Agg{m.structFieldValue(st, i, m.fieldOffsets(st)), m.ctx.True}
			}
		}
		// promoted fields through embedded structs are not modelled (frugal looks up a direct field)
		return Agg{m.zeroStructField(), m.ctx.False}
	})
	rt("Implements", func(m *Machine, t types.Type, a []Value) Value {
		it := m.rtypeOf(a[1])
		return m.ctx.Bool(types.Implements(t, it.Underlying().(*types.Interface)))
	})

	M["(reflect.StructTag).Lookup"] = func(m *Machine, fr *Frame, a []Value) Value {
		tag := m.mustGoString(a[0], "StructTag")
		key := m.mustGoString(a[1], "StructTag key")
		v, ok := reflect.StructTag(tag).Lookup(key)
		return Agg{m.mkString(v), m.ctx.Bool(ok)}
	}
	M["(reflect.StructTag).Get"] = func(m *Machine, fr *Frame, a []Value) Value {
		tag := m.mustGoString(a[0], "StructTag")
		key := m.mustGoString(a[1], "StructTag key")
		return m.mkString(reflect.StructTag(tag).Get(key))
	}

	// ---------------- runtime ----------------
	M["*.mallocgc"] = func(m *Machine, fr *Frame, a []Value) Value {
		size := m.simp(a[0].(*Term))
		m.noteAlloc(size, "mallocgc")
		if !size.IsConst() {
			// M-alloc: a size that can exceed the engine's allocation cap under the current path is reported
			lim := m.ctx.Const(uint64(m.cfg.MaxAlloc), 64)
			m.monitor(m.ctx.Ule(size, lim), "monitor", "M-alloc: requested allocation size can exceed 4 MiB on this path (length not bounded by the input)")
		}
		var symSize *Term
		n := 0
		if !size.IsConst() && m.cfg.SymAlloc {
			symSize = size // keep the size symbolic: physical storage grows on demand, bounds are checked by the solver
		} else {
			n = int(m.concretize(size, "mallocgc size"))
		}
		if n > m.cfg.MaxAlloc {
			m.unsupported("mallocgc(%d) too large for the engine", n)
		}
		tw := m.simp(a[1].(*Term))
		if !tw.IsConst() {
			m.unsupported("mallocgc with symbolic type")
		}
		nz := m.simp(a[2].(*Term))
		needzero := !nz.IsConst() || nz.Val != 0
		align := 8
		if n >= 16 {
			align = 16
		}
		if n == 0 {
			n = 0
		}
		b := m.newBlock(n, align, "mallocgc")
		if symSize != nil {
			b.sizeTerm = symSize
			m.heap.next += uint64(m.cfg.MaxAlloc) // reserve the address range
		}
		b.owner = m.owner
		m.allocSeq++
		b.seq = m.allocSeq
		if tw.Val != 0 {
			et := m.typeAt(tw.Val)
			b.typ = et
			es := m.sizeof(et)
			if es > 0 {
				b.nelem = n / es
				if n%es != 0 {
					m.violate("monitor", fmt.Sprintf("M-scan: mallocgc size %d is not a multiple of element type %s size %d", n, typeString(et), es), nil)
				}
			}
			b.name = "mallocgc[" + typeString(et) + "]"
			if !needzero {
				m.violate("monitor", "M-scan: typed (pointer-bearing) allocation without zeroing", nil)
			}
		} else {
			b.noscan = true
			b.name = "mallocgc[noscan]"
		}
		if !needzero {
			b.garbage = true
			b.defined = make([]bool, n)
		}
		return m.ptr(b)
	}
	M["runtime.Version"] = func(m *Machine, fr *Frame, a []Value) Value { return m.mkString("go-model") }
	M["runtime.GC"] = func(m *Machine, fr *Frame, a []Value) Value { return nil }
	M["runtime.KeepAlive"] = func(m *Machine, fr *Frame, a []Value) Value { return nil }
	M["math/bits.OnesCount8"] = func(m *Machine, fr *Frame, a []Value) Value {
		x := a[0].(*Term)
		c := m.ctx
		r := c.Const(0, 64)
		for i := 0; i < 8; i++ {
			r = c.BvAdd(r, c.ZeroExt(c.Extract(x, i, i), 64))
		}
		return r
	}

	// ---------------- sync/atomic ----------------
	M["sync/atomic.LoadPointer"] = func(m *Machine, fr *Frame, a []Value) Value {
		return m.atomicLoad(a[0].(*Term))
	}
	M["sync/atomic.StorePointer"] = func(m *Machine, fr *Frame, a []Value) Value {
		m.atomicStore(a[0].(*Term), a[1].(*Term))
		return nil
	}
	// ---------------- sync ----------------
	M["(*sync.Pool).Get"] = func(m *Machine, fr *Frame, a []Value) Value {
		p := m.simp(a[0].(*Term))
		if !p.IsConst() {
			m.unsupported("symbolic *sync.Pool")
		}
		m.schedPoint("Pool.Get")
		st := m.pools[p.Val]
		if st != nil && len(st.items) > 0 && m.poolPolicy != "fresh" {
			x := st.items[len(st.items)-1]
			m.syncAcquire(poolItemKey(m, x)) // Put(x) happens before the Get that returns x
			nst := &PoolState{items: append([]Value(nil), st.items[:len(st.items)-1]...)}
			m.pools[p.Val] = nst
			m.markReleased(x, false)
			return x
		}
		off := m.P.poolNewOff
		nf := m.loadBits(m.addOff(p, off), 8)
		if nf.IsConst() && nf.Val == 0 {
			return Agg{m.ctx.Const(0, 64), m.ctx.Const(0, 64)}
		}
		saved := m.owner
		m.owner = "pool"
		m.allocEvent("sync.Pool miss: New called")
		r := m.callClosure(fr, nf, nil)
		m.owner = saved
		return r
	}
	M["(*sync.Pool).Put"] = func(m *Machine, fr *Frame, a []Value) Value {
		p := m.simp(a[0].(*Term))
		if !p.IsConst() {
			m.unsupported("symbolic *sync.Pool")
		}
		x := a[1].(Agg)
		if tw := m.simp(x[0].(*Term)); tw.IsConst() && tw.Val == 0 {
			return nil
		}
		m.schedPoint("Pool.Put")
		m.syncRelease(poolItemKey(m, x))
		st := m.pools[p.Val]
		nst := &PoolState{}
		if st != nil {
			nst.items = append(nst.items, st.items...)
		}
		nst.items = append(nst.items, x)
		m.pools[p.Val] = nst
		m.markReleased(x, true)
		return nil
	}
	lock := func(name string, held bool) {
		M[name] = func(m *Machine, fr *Frame, a []Value) Value {
			p := m.simp(a[0].(*Term))
			if !p.IsConst() {
				m.unsupported("symbolic mutex address")
			}
			if m.sched != nil && m.sched.cur != nil {
				if held {
					m.mutexLock(p.Val, false)
				} else {
					m.mutexUnlock(p.Val, false)
				}
				return nil
			}
			if held && m.mutexes[p.Val] && strings.HasSuffix(name, ".Lock") {
				m.violate("monitor", "deadlock: recursive Lock of a held mutex", nil)
				panic(&pathEnd{"fault", "deadlock"})
			}
			m.mutexes[p.Val] = held
			return nil
		}
	}
	lock("(*sync.Mutex).Lock", true)
	lock("(*sync.Mutex).Unlock", false)
	lock("(*sync.RWMutex).Lock", true)
	lock("(*sync.RWMutex).Unlock", false)
	rlock := func(acq bool) Model {
		return func(m *Machine, fr *Frame, a []Value) Value {
			if m.sched != nil && m.sched.cur != nil {
				p := m.simp(a[0].(*Term))
				if !p.IsConst() {
					m.unsupported("symbolic mutex address")
				}
				if acq {
					m.mutexLock(p.Val, true)
				} else {
					m.mutexUnlock(p.Val, true)
				}
			}
			return nil
		}
	}
	M["(*sync.RWMutex).RLock"] = rlock(true)
	M["(*sync.RWMutex).RUnlock"] = rlock(false)

	// ---------------- fmt / errors / strings / strconv / sort / os ----------------
	M["fmt.Sprintf"] = func(m *Machine, fr *Frame, a []Value) Value {
		s, _ := m.sprintf(m.mustGoString(a[0], "format"), a[1].(Agg))
		return m.mkString(s)
	}
	M["fmt.Sprint"] = func(m *Machine, fr *Frame, a []Value) Value {
		s, _ := m.sprintf("%v", a[0].(Agg))
		return m.mkString(s)
	}
	M["fmt.Errorf"] = func(m *Machine, fr *Frame, a []Value) Value {
		s, wrapped := m.sprintf(m.mustGoString(a[0], "format"), a[1].(Agg))
		if wrapped != nil {
			wt := m.P.lookupType("fmt", "wrapError")
			b := m.allocObj(wt, 1, "fmt.wrapError")
			m.store(m.ptr(b), wt, Agg{m.mkString(s), wrapped})
			return Agg{m.ctx.Const(m.typeAddr(types.NewPointer(wt)), 64), m.ptr(b)}
		}
		et := m.P.lookupType("errors", "errorString")
		b := m.allocObj(et, 1, "errors.errorString")
		m.store(m.ptr(b), et, Agg{m.mkString(s)})
		return Agg{m.ctx.Const(m.typeAddr(types.NewPointer(et)), 64), m.ptr(b)}
	}
	for _, n := range []string{"fmt.Println", "fmt.Printf", "fmt.Print", "fmt.Fprintf", "fmt.Fprintln"} {
		M[n] = func(m *Machine, fr *Frame, a []Value) Value {
			return Agg{m.ctx.Const(0, 64), Agg{m.ctx.Const(0, 64), m.ctx.Const(0, 64)}}
		}
	}
	M["strings.Split"] = func(m *Machine, fr *Frame, a []Value) Value {
		s, sep := m.mustGoString(a[0], "strings.Split"), m.mustGoString(a[1], "strings.Split sep")
		return m.mkStringSlice(strings.Split(s, sep))
	}
	M["strings.TrimSpace"] = func(m *Machine, fr *Frame, a []Value) Value {
		return m.mkString(strings.TrimSpace(m.mustGoString(a[0], "strings.TrimSpace")))
	}
	M["strings.Join"] = func(m *Machine, fr *Frame, a []Value) Value {
		sl := a[0].(Agg)
		n := int(m.concretize(sl[1].(*Term), "Join len"))
		var parts []string
		for i := 0; i < n; i++ {
			parts = append(parts, m.mustGoString(m.load(m.addOff(sl[0].(*Term), int64(16*i)), types.Typ[types.String]), "Join elem"))
		}
		return m.mkString(strings.Join(parts, m.mustGoString(a[1], "Join sep")))
	}
	M["strings.Contains"] = func(m *Machine, fr *Frame, a []Value) Value {
		return m.stringsContains(a[0].(Agg), a[1].(Agg))
	}
	M["strings.HasPrefix"] = func(m *Machine, fr *Frame, a []Value) Value {
		s, p := m.mustGoString(a[0], "HasPrefix"), m.mustGoString(a[1], "HasPrefix")
		return m.ctx.Bool(strings.HasPrefix(s, p))
	}
	M["strings.Index"] = func(m *Machine, fr *Frame, a []Value) Value {
		s, p := m.mustGoString(a[0], "Index"), m.mustGoString(a[1], "Index")
		return m.ctx.Const(uint64(int64(strings.Index(s, p))), 64)
	}
	M["strconv.Itoa"] = func(m *Machine, fr *Frame, a []Value) Value {
		t := m.simp(a[0].(*Term))
		if t.IsConst() {
			return m.mkString(strconv.Itoa(int(int64(t.Val))))
		}
		return m.mkString("<int>")
	}
	M["strconv.ParseUint"] = func(m *Machine, fr *Frame, a []Value) Value {
		c := m.ctx
		s, ok := m.goString(a[0])
		base := int(int64(m.concretize(a[1].(*Term), "ParseUint base")))
		bits := int(int64(m.concretize(a[2].(*Term), "ParseUint bitSize")))
		if !ok {
			return m.parseUintSym(a[0].(Agg), base, bits)
		}
		v, err := strconv.ParseUint(s, base, bits)
		if err != nil {
			return Agg{c.Const(v, 64), m.mkError("strconv.ParseUint: " + err.Error())}
		}
		return Agg{c.Const(v, 64), Agg{c.Const(0, 64), c.Const(0, 64)}}
	}
	M["sort.Slice"] = func(m *Machine, fr *Frame, a []Value) Value {
		ifc := a[0].(Agg)
		dt := m.typeAt(m.simp(ifc[0].(*Term)).Val)
		st, ok := dt.Underlying().(*types.Slice)
		if !ok {
			panic(&GuestPanic{msg: "sort.Slice of non-slice", site: m.site()})
		}
		sl := m.load(ifc[1].(*Term), dt).(Agg)
		n := int(m.concretize(sl[1].(*Term), "sort.Slice len"))
		es := int64(m.sizeof(st.Elem()))
		less := a[1].(*Term)
		c := m.ctx
		// insertion sort driven by the real less closure
		for i := 1; i < n; i++ {
			for j := i; j > 0; j-- {
				r := m.callClosure(fr, less, []Value{c.Const(uint64(j), 64), c.Const(uint64(j-1), 64)}).(*Term)
				if !m.branch(r) {
					break
				}
				pa := m.addOff(sl[0].(*Term), es*int64(j))
				pb := m.addOff(sl[0].(*Term), es*int64(j-1))
				va, vb := m.load(pa, st.Elem()), m.load(pb, st.Elem())
				m.store(pa, st.Elem(), vb)
				m.store(pb, st.Elem(), va)
			}
		}
		return nil
	}
	M["os.Getenv"] = func(m *Machine, fr *Frame, a []Value) Value {
		key := m.mustGoString(a[0], "Getenv key")
		if v, ok := m.cfg.Env[key]; ok {
			return m.mkString(v)
		}
		if m.cfg.SymEnvLen > 0 && strings.HasPrefix(key, "FRUGAL_") && !m.inBase {
			if v, ok := m.envCache[key]; ok {
				return v
			}
			v := m.symString("env_"+key, m.cfg.SymEnvLen)
			m.envCache[key] = v
			return v
		}
		return m.mkString("")
	}
	M["errors.Is"] = func(m *Machine, fr *Frame, a []Value) Value {
		m.unsupported("errors.Is in executed code")
		return nil
	}
	registerIntrinsics(M)
	return M
}

func (m *Machine) noteAlloc(size *Term, what string) {
	m.allocBytes = m.ctx.BvAdd(m.allocBytes, size)
}

// rvLoadAs loads the value a reflect.Value denotes as a value of type t.
func (m *Machine) rvLoadAs(r rval, t types.Type) Value {
	if _, isI := t.Underlying().(*types.Interface); isI {
		if _, srcI := r.t.Underlying().(*types.Interface); !srcI {
			return m.rvInterface(r)
		}
	}
	if r.flag&flagIndir != 0 {
		return m.load(r.ptr, t)
	}
	return m.wrapDirect(t, r.ptr)
}

func (m *Machine) markReleased(x Value, rel bool) {
	ifc := x.(Agg)
	tw := m.simp(ifc[0].(*Term))
	if !tw.IsConst() || tw.Val == 0 {
		return
	}
	dt := m.typeAt(tw.Val)
	if _, ok := dt.Underlying().(*types.Pointer); !ok {
		return
	}
	p := m.simp(ifc[1].(*Term))
	if !p.IsConst() || p.Val == 0 {
		return
	}
	if b := m.heap.find(p.Val); b != nil && b.kind == bkData {
		b = m.wblock(b)
		b.released = rel
	}
}

func (m *Machine) mkStringSlice(ss []string) Value {
	c := m.ctx
	st := types.Typ[types.String]
	b := m.allocObj(st, len(ss), "[]string")
	for i, s := range ss {
		m.store(c.Const(b.base+uint64(16*i), 64), st, m.mkString(s))
	}
	return Agg{m.ptr(b), c.Const(uint64(len(ss)), 64), c.Const(uint64(len(ss)), 64)}
}

func (m *Machine) mkError(msg string) Value {
	et := m.P.lookupType("errors", "errorString")
	b := m.allocObj(et, 1, "errors.errorString")
	m.store(m.ptr(b), et, Agg{m.mkString(msg)})
	return Agg{m.ctx.Const(m.typeAddr(types.NewPointer(et)), 64), m.ptr(b)}
}

// symString: a string of exactly n fresh symbolic bytes.
func (m *Machine) symString(name string, n int) Value {
	c := m.ctx
	b := m.newBlock(n, 1, "symbolic string "+name)
	b.owner = m.owner
	for i := 0; i < n; i++ {
		if m.fixed != nil {
			m.rawStore(b, i, c.Const(m.nextFixed(name, "u8"), 8), 1)
			continue
		}
		v := m.fresh("s", 8)
		m.nondets = append(m.nondets, nondetRec{name: fmt.Sprintf("%s[%d]", name, i), kind: "u8", t: v})
		m.rawStore(b, i, v, 1)
	}
	return Agg{m.ptr(b), c.Const(uint64(n), 64)}
}

// stringsContains: s concrete or symbolic, substr concrete or symbolic; lengths concrete.
func (m *Machine) stringsContains(s, sub Agg) Value {
	c := m.ctx
	if hs, ok := m.goString(s); ok {
		if ns, ok2 := m.goString(sub); ok2 {
			return c.Bool(strings.Contains(hs, ns))
		}
	}
	ls := int(m.concretize(s[1].(*Term), "Contains len"))
	ln := int(m.concretize(sub[1].(*Term), "Contains len"))
	if ln == 0 {
		return c.True
	}
	if ln > ls {
		return c.False
	}
	res := c.False
	for i := 0; i+ln <= ls; i++ {
		eq := c.True
		for j := 0; j < ln; j++ {
			a := m.loadBits(m.addOff(s[0].(*Term), int64(i+j)), 1)
			b := m.loadBits(m.addOff(sub[0].(*Term), int64(j)), 1)
			eq = c.And(eq, c.Eq(a, b))
		}
		res = c.Or(res, eq)
	}
	return res
}

// parseUintSym: strconv.ParseUint on a symbolic string of concrete length (base 0/10 decimal digits only are
// accepted as numbers; anything else yields an error) -- used by the C17 environment harness.
func (m *Machine) parseUintSym(s Agg, base, bits int) Value {
	c := m.ctx
	n := int(m.concretize(s[1].(*Term), "ParseUint len"))
	if n == 0 || n > 18 {
		return Agg{c.Const(0, 64), m.mkError("strconv.ParseUint: syntax")}
	}
	val := c.Const(0, 64)
	ok := c.True
	for i := 0; i < n; i++ {
		ch := m.loadBits(m.addOff(s[0].(*Term), int64(i)), 1)
		isd := c.And(c.Ule(c.Const('0', 8), ch), c.Ule(ch, c.Const('9', 8)))
		ok = c.And(ok, isd)
		d := c.ZeroExt(c.BvSub(ch, c.Const('0', 8)), 64)
		val = c.BvAdd(c.BvMul(val, c.Const(10, 64)), d)
	}
	if base == 0 && n > 1 {
		// leading "0" selects octal / prefixes in base 0: exclude from the decimal reading
		first := m.loadBits(s[0].(*Term), 1)
		ok = c.And(ok, c.Not(c.Eq(first, c.Const('0', 8))))
	}
	if m.branch(ok) {
		return Agg{val, Agg{c.Const(0, 64), c.Const(0, 64)}}
	}
	return Agg{c.Const(0, 64), m.mkError("strconv.ParseUint: syntax (or non-decimal form, not modelled)")}
}

// sprintf: minimal fmt verb support on concrete arguments; returns the %w operand if any.
func (m *Machine) sprintf(format string, args Agg) (string, Value) {
	n := int(m.concretize(args[1].(*Term), "fmt args len"))
	ifaceT := types.NewInterfaceType(nil, nil)
	var vals []Agg
	for i := 0; i < n; i++ {
		vals = append(vals, m.load(m.addOff(args[0].(*Term), int64(16*i)), ifaceT).(Agg))
	}
	var sb strings.Builder
	var wrapped Value
	ai := 0
	for i := 0; i < len(format); i++ {
		ch := format[i]
		if ch != '%' {
			sb.WriteByte(ch)
			continue
		}
		i++
		if i >= len(format) {
			break
		}
		// skip flags/width
		for i < len(format) && strings.IndexByte("+-# 0123456789.", format[i]) >= 0 {
			i++
		}
		if i >= len(format) {
			break
		}
		verb := format[i]
		if verb == '%' {
			sb.WriteByte('%')
			continue
		}
		if ai >= len(vals) {
			sb.WriteString("%!" + string(verb) + "(MISSING)")
			continue
		}
		v := vals[ai]
		ai++
		if verb == 'w' {
			wrapped = v
		}
		sb.WriteString(m.fmtArg(v, verb))
	}
	return sb.String(), wrapped
}

func (m *Machine) fmtArg(v Agg, verb byte) string {
	tw := m.simp(v[0].(*Term))
	if !tw.IsConst() {
		return "<sym>"
	}
	if tw.Val == 0 {
		return "<nil>"
	}
	dt := m.typeAt(tw.Val)
	if types.Identical(dt, m.P.rtypeTyp) {
		return typeString(m.rtypeOf(v[1]))
	}
	switch u := dt.Underlying().(type) {
	case *types.Basic:
		val := m.ifaceData(dt, v[1].(*Term))
		switch {
		case u.Info()&types.IsString != 0:
			s, ok := m.goString(val)
			if !ok {
				return "<sym-string>"
			}
			if verb == 'q' {
				return strconv.Quote(s)
			}
			return s
		case u.Info()&types.IsInteger != 0:
			t := m.simp(val.(*Term))
			if !t.IsConst() {
				return "<sym-int>"
			}
			if u.Info()&types.IsUnsigned != 0 {
				return strconv.FormatUint(t.Val, 10)
			}
			return strconv.FormatInt(sext64(t.Val, t.W), 10)
		case u.Info()&types.IsBoolean != 0:
			t := m.simp(val.(*Term))
			if t.IsConst() {
				return strconv.FormatBool(t.Val != 0)
			}
			return "<sym-bool>"
		}
	}
	return "<" + typeString(dt) + ">"
}

func (P *Program) lookupType(pkg, name string) types.Type {
	p := P.prog.ImportedPackage(pkg)
	if p == nil {
		for _, q := range P.prog.AllPackages() {
			if q.Pkg.Path() == pkg {
				p = q
				break
			}
		}
	}
	if p == nil {
		panic("package not loaded: " + pkg)
	}
	o := p.Pkg.Scope().Lookup(name)
	if o == nil {
		panic("type not found: " + pkg + "." + name)
	}
	return o.Type()
}

func sortedKeys(m map[string]int) []string {
	var ks []string
	for k := range m {
		ks = append(ks, k)
	}
	sort.Strings(ks)
	return ks
}

// publish marks the block p points to and, for a slice header, its backing array as published through an atomic
// pointer: any later store to them violates the copy-on-write discipline. Completeness of the object graph behind
// the published pointer is checked at publication time by the harness callback (onPublish).
func (m *Machine) publish(p *Term, depth int) {
	p = m.simp(p)
	if !p.IsConst() || p.Val < nilPage {
		return
	}
	b := m.heap.find(p.Val)
	if b == nil || b.kind != bkData || b.published {
		return
	}
	b = m.wblock(b)
	b.published = true
	if b.size >= 8 && !b.hasSym(0, 8) {
		w := m.rawLoad(b, 0, 8)
		if w.IsConst() {
			if t := m.heap.find(w.Val); t != nil && t.kind == bkData && t.base == w.Val && t.typ != nil && !t.published {
				t = m.wblock(t)
				t.published = true
			}
		}
	}
	if cb := m.P.onPublish; cb != nil && !m.inCallback {
		m.inCallback = true
		m.callFunction(cb, []Value{p}, nil)
		m.inCallback = false
	}
}

func (m *Machine) atomicLoad(p *Term) Value {
	m.schedPoint("atomic.Load")
	if q := m.simp(p); q.IsConst() {
		m.syncAcquire(q.Val)
	}
	saved := m.sched
	m.sched = nil // the atomic access itself is not a plain access
	v := m.loadBits(p, 8)
	m.sched = saved
	return v
}

func (m *Machine) atomicStore(p, v *Term) {
	m.schedPoint("atomic.Store")
	if q := m.simp(p); q.IsConst() {
		m.syncRelease(q.Val)
	}
	saved := m.sched
	m.sched = nil
	m.storeBits(p, v, 8)
	m.sched = saved
	m.publish(v, 2)
}

// poolItemKey: synchronisation object standing for one pooled item (its data word), distinct from real addresses.
func poolItemKey(m *Machine, x Value) uint64 {
	if a, ok := x.(Agg); ok && len(a) == 2 {
		if d := m.simp(a[1].(*Term)); d.IsConst() {
			return d.Val | 1<<63
		}
	}
	return 1 << 63
}
