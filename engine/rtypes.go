package main

// Model of reflect.Type / reflect.Value on top of go/types.  An "abi type" is
// a block (kind bkType) carrying the types.Type; reflect.Type interface values
// have dynamic type *reflect.rtype and the abi type address as data word, which
// is exactly what frugal's rtTypePtr/rvTypePtr hacks read.

import (
	"fmt"
	"go/types"
	"reflect"
	"strings"
)

func (m *Machine) typeAddr(t types.Type) uint64 {
	if a := m.typeBlks.At(t); a != nil {
		return a.(uint64)
	}
	b := m.newBlock(64, 64, "abi.Type "+t.String())
	b.kind = bkType
	b.rtype = t
	b.readonly = true
	b.owner = "const"
	m.typeBlks.Set(t, b.base)
	return b.base
}

func (m *Machine) typeAt(addr uint64) types.Type {
	b := m.heap.find(addr)
	if b == nil || b.kind != bkType || b.base != addr {
		m.violate("fault", fmt.Sprintf("type word %#x does not point to a type descriptor", addr), nil)
		panic(&pathEnd{"fault", "bad type pointer"})
	}
	return b.rtype
}

// rtypeIface builds a reflect.Type interface value for t.
func (m *Machine) rtypeIface(t types.Type) Value {
	if t == nil {
		return Agg{m.ctx.Const(0, 64), m.ctx.Const(0, 64)}
	}
	return Agg{m.ctx.Const(m.typeAddr(m.P.rtypeTyp), 64), m.ctx.Const(m.typeAddr(t), 64)}
}

// rtypeOf extracts the types.Type from a reflect.Type interface value (or *rtype pointer).
func (m *Machine) rtypeOf(v Value) types.Type {
	var w *Term
	switch x := v.(type) {
	case Agg:
		w = x[1].(*Term)
	case *Term:
		w = x
	}
	w = m.simp(w)
	if !w.IsConst() {
		m.unsupported("symbolic reflect.Type")
	}
	if w.Val == 0 {
		panic(&GuestPanic{runtime: true, msg: "nil reflect.Type", site: m.site()})
	}
	return m.typeAt(w.Val)
}

func kindOf(t types.Type) reflect.Kind {
	switch u := t.Underlying().(type) {
	case *types.Basic:
		switch u.Kind() {
		case types.Bool:
			return reflect.Bool
		case types.Int:
			return reflect.Int
		case types.Int8:
			return reflect.Int8
		case types.Int16:
			return reflect.Int16
		case types.Int32:
			return reflect.Int32
		case types.Int64:
			return reflect.Int64
		case types.Uint:
			return reflect.Uint
		case types.Uint8:
			return reflect.Uint8
		case types.Uint16:
			return reflect.Uint16
		case types.Uint32:
			return reflect.Uint32
		case types.Uint64:
			return reflect.Uint64
		case types.Uintptr:
			return reflect.Uintptr
		case types.Float32:
			return reflect.Float32
		case types.Float64:
			return reflect.Float64
		case types.Complex64:
			return reflect.Complex64
		case types.Complex128:
			return reflect.Complex128
		case types.String:
			return reflect.String
		case types.UnsafePointer:
			return reflect.UnsafePointer
		}
	case *types.Array:
		return reflect.Array
	case *types.Chan:
		return reflect.Chan
	case *types.Signature:
		return reflect.Func
	case *types.Interface:
		return reflect.Interface
	case *types.Map:
		return reflect.Map
	case *types.Pointer:
		return reflect.Ptr
	case *types.Slice:
		return reflect.Slice
	case *types.Struct:
		return reflect.Struct
	}
	return reflect.Invalid
}

// typeString mimics reflect.Type.String (package-name qualified).
func typeString(t types.Type) string {
	s := types.TypeString(t, func(p *types.Package) string { return p.Name() })
	s = strings.ReplaceAll(s, "byte", "uint8")
	return s
}

func typeName(t types.Type) string {
	switch n := t.(type) {
	case *types.Named:
		return n.Obj().Name()
	case *types.Basic:
		if n.Kind() == types.Uint8 {
			return "uint8"
		}
		if n.Kind() == types.Int32 {
			return "int32"
		}
		return n.Name()
	case *types.Alias:
		return typeName(types.Unalias(t))
	}
	return ""
}

// ---- reflect.Value model: real layout {typ_ *abi.Type; ptr unsafe.Pointer; flag uintptr} ----

const (
	flagKindMask = 1<<5 - 1
	flagStickyRO = 1 << 5
	flagEmbedRO  = 1 << 6
	flagIndir    = 1 << 7
	flagAddr     = 1 << 8
	flagMethod   = 1 << 9
)

type rval struct {
	t    types.Type
	ptr  *Term
	flag uint64
}

func (m *Machine) rvDecode(v Value) rval {
	a := v.(Agg)
	tw := m.simp(a[0].(*Term))
	fl := m.simp(a[2].(*Term))
	if !tw.IsConst() || !fl.IsConst() {
		m.unsupported("symbolic reflect.Value header")
	}
	r := rval{ptr: a[1].(*Term), flag: fl.Val}
	if tw.Val != 0 {
		r.t = m.typeAt(tw.Val)
	}
	return r
}

func (m *Machine) rvEncode(r rval) Value {
	c := m.ctx
	if r.t == nil {
		return Agg{c.Const(0, 64), c.Const(0, 64), c.Const(0, 64)}
	}
	return Agg{c.Const(m.typeAddr(r.t), 64), r.ptr, c.Const(r.flag, 64)}
}

func (m *Machine) rvMust(r rval, what string, kinds ...reflect.Kind) {
	if r.t == nil {
		panic(&GuestPanic{msg: "reflect: call of " + what + " on zero Value", site: m.site()})
	}
	if len(kinds) == 0 {
		return
	}
	k := kindOf(r.t)
	for _, x := range kinds {
		if x == k {
			return
		}
	}
	panic(&GuestPanic{msg: fmt.Sprintf("reflect: call of %s on %s Value", what, k), site: m.site()})
}

// rvPointerWord: the pointer-shaped content of r (for Ptr/Map/... kinds).
func (m *Machine) rvPointerWord(r rval) *Term {
	if r.flag&flagIndir != 0 {
		return m.loadBits(r.ptr, 8)
	}
	return r.ptr
}

// rvValueOf models reflect.ValueOf / unpackEface.
func (m *Machine) rvValueOf(ifc Agg) rval {
	tw := m.simp(ifc[0].(*Term))
	if !tw.IsConst() {
		m.unsupported("reflect.ValueOf on symbolic dynamic type")
	}
	if tw.Val == 0 {
		return rval{}
	}
	t := m.typeAt(tw.Val)
	f := uint64(kindOf(t))
	if !isDirectIface(t) {
		f |= flagIndir
	}
	return rval{t: t, ptr: ifc[1].(*Term), flag: f}
}

// rvInterface models packEface.
func (m *Machine) rvInterface(r rval) Value {
	c := m.ctx
	m.rvMust(r, "Interface")
	if _, ok := r.t.Underlying().(*types.Interface); ok {
		// stored interface value
		return m.load(r.ptr, r.t)
	}
	tw := c.Const(m.typeAddr(r.t), 64)
	if isDirectIface(r.t) {
		return Agg{tw, m.rvPointerWord(r)}
	}
	if r.flag&flagIndir == 0 {
		m.unsupported("reflect.Value.Interface: indirect type without flagIndir")
	}
	p := r.ptr
	if r.flag&flagAddr != 0 {
		b := m.allocObj(r.t, 1, "reflect.Interface copy")
		m.copyBytes(m.ptr(b), r.ptr, m.sizeof(r.t))
		p = m.ptr(b)
	}
	return Agg{tw, p}
}
