package main

// Bounded schedule exploration (C08): guest threads run as host goroutines used as coroutines — exactly one runs
// at a time; control returns to the scheduler at every synchronisation operation (atomic load/store, mutex
// lock/unlock, sync.Pool get/put, thread start/end). Which thread runs next is a decision of the replayed
// decision stream, so the explorer enumerates schedules like any other nondeterminism, with a bound on
// preemptive context switches. A vector-clock happens-before detector checks every plain memory access and
// every Go-map operation made inside the concurrent region.

import (
	"fmt"
)

type yieldMsg struct {
	kind int // 0 yield, 1 finished, 2 host panic
	val  interface{}
}

type Thread struct {
	id        int
	fn        *Term
	resume    chan bool
	yield     chan yieldMsg
	started   bool
	done      bool
	blockedOn uint64
	blockedRd bool
	callstack []string
	depth     int
	vc        []int
}

type threadAbort struct{}

type wordState struct {
	wtid int
	wclk int
	rclk []int
	site string
}

type SchedState struct {
	threads     []*Thread
	cur         *Thread
	preemptions int
	bound       int
	words       map[uint64]*wordState
	syncVC      map[uint64][]int
	mutexOwner  map[uint64]int
	readers     map[uint64]int
	races       map[string]bool
}

func vcJoin(a, b []int) []int {
	for i := range b {
		if i < len(a) && b[i] > a[i] {
			a[i] = b[i]
		}
	}
	return a
}

// schedPoint: a visible operation of the running guest thread; hands control back to the scheduler.
func (m *Machine) schedPoint(what string) {
	s := m.sched
	if s == nil || s.cur == nil {
		return
	}
	t := s.cur
	t.yield <- yieldMsg{kind: 0}
	if ok := <-t.resume; !ok {
		panic(threadAbort{})
	}
}

func (m *Machine) threadID() int {
	if m.sched == nil || m.sched.cur == nil {
		return -1
	}
	return m.sched.cur.id
}

// acquire / release on a synchronisation object (atomic variable, mutex, pool)
func (m *Machine) syncAcquire(addr uint64) {
	s := m.sched
	if s == nil || s.cur == nil {
		return
	}
	if l := s.syncVC[addr]; l != nil {
		s.cur.vc = vcJoin(s.cur.vc, l)
	}
}

func (m *Machine) syncRelease(addr uint64) {
	s := m.sched
	if s == nil || s.cur == nil {
		return
	}
	l := s.syncVC[addr]
	if l == nil {
		l = make([]int, len(s.threads))
	}
	s.syncVC[addr] = vcJoin(l, s.cur.vc)
	s.cur.vc[s.cur.id]++
}

// raceAccess records a plain access of the running thread to [addr, addr+n) and reports unordered conflicts.
func (m *Machine) raceAccess(addr uint64, n int, write bool, what string) {
	s := m.sched
	if s == nil || s.cur == nil || n == 0 {
		return
	}
	t := s.cur
	for w := addr >> 3; w <= (addr+uint64(n)-1)>>3; w++ {
		ws := s.words[w]
		if ws == nil {
			ws = &wordState{wtid: -1, rclk: make([]int, len(s.threads))}
			s.words[w] = ws
		}
		conflict := ""
		if ws.wtid >= 0 && ws.wtid != t.id && ws.wclk > t.vc[ws.wtid] {
			conflict = fmt.Sprintf("previous write by thread %d (%s)", ws.wtid, ws.site)
		}
		if write && conflict == "" {
			for u := range ws.rclk {
				if u != t.id && ws.rclk[u] > t.vc[u] {
					conflict = fmt.Sprintf("previous read by thread %d", u)
				}
			}
		}
		if conflict != "" {
			b := m.heap.find(w << 3)
			name := "?"
			if b != nil {
				name = fmt.Sprintf("%s+%d", b.name, (w<<3)-b.base)
			}
			key := name + "|" + what
			if !s.races[key] {
				s.races[key] = true
				kind := "read"
				if write {
					kind = "write"
				}
				m.violate("monitor", fmt.Sprintf("C08 data race: %s of %s by thread %d at %s is not ordered after %s", kind, name, t.id, m.site(), conflict), nil)
			}
		}
		if write {
			ws.wtid, ws.wclk, ws.site = t.id, t.vc[t.id], m.site()
			for u := range ws.rclk {
				ws.rclk[u] = 0
			}
		} else {
			ws.rclk[t.id] = t.vc[t.id]
		}
	}
}

// canAcquire: can a lock operation on addr (shared or exclusive) proceed now?
func (s *SchedState) canAcquire(addr uint64, rd bool) bool {
	if _, held := s.mutexOwner[addr]; held {
		return false
	}
	return rd || s.readers[addr] == 0
}

// mutexLock / mutexUnlock in the concurrent region (blocking semantics; rd: RWMutex read side).
func (m *Machine) mutexLock(addr uint64, rd bool) {
	s := m.sched
	t := s.cur
	m.schedPoint("lock")
	for {
		if s.canAcquire(addr, rd) {
			if rd {
				s.readers[addr]++
			} else {
				s.mutexOwner[addr] = t.id
				m.mutexes[addr] = true
			}
			t.blockedOn = 0
			m.syncAcquire(addr)
			return
		}
		if owner, held := s.mutexOwner[addr]; held && owner == t.id {
			m.violate("monitor", "C08 deadlock: recursive Lock of a mutex held by the same goroutine", nil)
			panic(&pathEnd{"fault", "deadlock"})
		}
		t.blockedOn, t.blockedRd = addr, rd
		m.schedPoint("blocked")
	}
}

func (m *Machine) mutexUnlock(addr uint64, rd bool) {
	s := m.sched
	m.syncRelease(addr)
	if rd {
		s.readers[addr]--
	} else {
		delete(s.mutexOwner, addr)
		m.mutexes[addr] = false
	}
	m.schedPoint("unlock")
}

// runConcurrently: model of vrt.RunConcurrently(fs ...func()).
func (m *Machine) runConcurrently(fr *Frame, fns []*Term) {
	if m.sched != nil {
		m.unsupported("nested RunConcurrently")
	}
	n := len(fns)
	s := &SchedState{words: map[uint64]*wordState{}, syncVC: map[uint64][]int{}, mutexOwner: map[uint64]int{}, readers: map[uint64]int{}, races: map[string]bool{}, bound: m.cfg.PreemptionBound}
	if s.bound == 0 {
		s.bound = 2
	} else if s.bound < 0 {
		s.bound = 0 // non-preemptive schedules only
	}
	for i, f := range fns {
		t := &Thread{id: i, fn: f, resume: make(chan bool), yield: make(chan yieldMsg), vc: make([]int, n)}
		t.vc[i] = 1
		s.threads = append(s.threads, t)
	}
	m.sched = s
	mainStack, mainDepth := m.callstack, m.depth
	abortAll := func() {
		for _, t := range s.threads {
			if t.started && !t.done {
				t.done = true
				t.resume <- false
				<-t.yield // the goroutine acknowledges its exit
			}
		}
		s.cur = nil
		m.sched = nil
		m.callstack, m.depth = mainStack, mainDepth
	}
	var last *Thread
	for {
		var runnable []*Thread
		alive := 0
		for _, t := range s.threads {
			if t.done {
				continue
			}
			alive++
			if t.blockedOn != 0 && !s.canAcquire(t.blockedOn, t.blockedRd) {
				continue
			}
			runnable = append(runnable, t)
		}
		if alive == 0 {
			break
		}
		if len(runnable) == 0 {
			m.violate("monitor", "C08 deadlock: every live goroutine is blocked on a mutex", nil)
			abortAll()
			panic(&pathEnd{"fault", "deadlock"})
		}
		// alternatives: continue the last thread without cost; switching away from a runnable thread is a preemption
		var alts []*Thread
		lastRunnable := false
		for _, t := range runnable {
			if t == last {
				lastRunnable = true
			}
		}
		if lastRunnable {
			alts = append(alts, last)
			if s.preemptions < s.bound {
				for _, t := range runnable {
					if t != last {
						alts = append(alts, t)
					}
				}
			}
		} else {
			alts = runnable
		}
		var t *Thread
		func() {
			defer func() {
				if r := recover(); r != nil {
					abortAll()
					panic(r)
				}
			}()
			d := 0
			if len(alts) > 1 {
				d = m.decide(make([]*Term, len(alts)))
			}
			t = alts[d]
		}()
		if lastRunnable && t != last {
			s.preemptions++
		}
		last = t
		s.cur = t
		m.callstack, m.depth = t.callstack, t.depth
		if !t.started {
			t.started = true
			go m.threadMain(t)
		}
		t.resume <- true
		msg := <-t.yield
		t.callstack, t.depth = m.callstack, m.depth
		s.cur = nil
		switch msg.kind {
		case 1:
			t.done = true
		case 2:
			t.done = true
			abortAll()
			panic(msg.val)
		}
	}
	m.sched = nil
	m.callstack, m.depth = mainStack, mainDepth
}

func (m *Machine) threadMain(t *Thread) {
	if ok := <-t.resume; !ok {
		t.yield <- yieldMsg{kind: 1}
		return
	}
	defer func() {
		if r := recover(); r != nil {
			if _, ok := r.(threadAbort); ok {
				t.yield <- yieldMsg{kind: 1}
				return
			}
			t.yield <- yieldMsg{kind: 2, val: r}
			return
		}
		t.yield <- yieldMsg{kind: 1}
	}()
	m.callClosure(nil, t.fn, nil)
}

// holds: does the running goroutine hold the (exclusive) mutex at addr?
func (m *Machine) holds(addr uint64) bool {
	if s := m.sched; s != nil && s.cur != nil {
		owner, held := s.mutexOwner[addr]
		return held && owner == s.cur.id
	}
	return m.mutexes[addr]
}
