package main

// Solver-checked validation of the term normaliser: random applications of every smart constructor are compared,
// by z3, with the un-normalised operator applied to the same arguments; any satisfiable difference is a bug.

import (
	"fmt"
	"math/rand"
)

type stGen struct {
	c   *Ctx
	rnd *rand.Rand
}

func (g *stGen) leaf(w int) *Term {
	switch g.rnd.Intn(5) {
	case 0:
		vals := []uint64{0, 1, mask(w), 1 << uint(w-1), 0x80, 0xff, 7, 8, 63, 64}
		return g.c.Const(vals[g.rnd.Intn(len(vals))], w)
	case 1:
		return g.c.Const(g.rnd.Uint64(), w)
	}
	return g.c.Var(fmt.Sprintf("st%d_%d", g.rnd.Intn(3), w), w)
}

// term builds a random term of width w using the smart constructors.
func (g *stGen) term(w, depth int) *Term {
	c := g.c
	if depth <= 0 {
		return g.leaf(w)
	}
	switch g.rnd.Intn(12) {
	case 0:
		return c.BvAdd(g.term(w, depth-1), g.term(w, depth-1))
	case 1:
		return c.BvOr(g.term(w, depth-1), g.term(w, depth-1))
	case 2:
		return c.BvAnd(g.term(w, depth-1), g.term(w, depth-1))
	case 3:
		return c.BvShl(g.term(w, depth-1), c.Const(uint64(g.rnd.Intn(w+2)), w))
	case 4:
		return c.BvLshr(g.term(w, depth-1), c.Const(uint64(g.rnd.Intn(w+2)), w))
	case 5:
		if w >= 16 {
			h := 8 * (1 + g.rnd.Intn(w/8-1))
			return c.Concat(g.term(w-h, depth-1), g.term(h, depth-1))
		}
	case 6:
		if w <= 32 {
			x := g.term(w*2, depth-1)
			lo := g.rnd.Intn(w + 1)
			return c.Extract(x, lo+w-1, lo)
		}
	case 7:
		if w >= 16 {
			return c.ZeroExt(g.term(w/2, depth-1), w)
		}
	case 8:
		if w >= 16 {
			return c.SignExt(g.term(w/2, depth-1), w)
		}
	case 9:
		return c.Ite(c.Ult(g.term(w, depth-1), g.term(w, depth-1)), g.term(w, depth-1), g.term(w, depth-1))
	case 10:
		return c.BvSub(g.term(w, depth-1), g.term(w, depth-1))
	case 11:
		return c.BvXor(g.term(w, depth-1), g.term(w, depth-1))
	}
	return g.leaf(w)
}

// selftest returns (cases, failures).
func selftest(n int, seed int64) (int, int, []string) {
	ctx := NewCtx()
	s, err := NewSolver(ctx, "", 20000)
	if err != nil {
		return 0, 1, []string{err.Error()}
	}
	defer s.Close()
	g := &stGen{c: ctx, rnd: rand.New(rand.NewSource(seed))}
	fails := 0
	var msgs []string
	widths := []int{8, 16, 32, 64}
	for i := 0; i < n; i++ {
		w := widths[g.rnd.Intn(len(widths))]
		a, b := g.term(w, 3), g.term(w, 3)
		type pair struct {
			name       string
			smart, raw *Term
		}
		k := uint64(g.rnd.Intn(w + 2))
		kc := ctx.Const(k, w)
		lo := g.rnd.Intn(w)
		hi := lo + g.rnd.Intn(w-lo)
		ps := []pair{
			{"bvadd", ctx.BvAdd(a, b), ctx.raw(OpBvAdd, w, a, b)},
			{"bvsub", ctx.BvSub(a, b), ctx.raw(OpBvSub, w, a, b)},
			{"bvand", ctx.BvAnd(a, b), ctx.raw(OpBvAnd, w, a, b)},
			{"bvor", ctx.BvOr(a, b), ctx.raw(OpBvOr, w, a, b)},
			{"bvxor", ctx.BvXor(a, b), ctx.raw(OpBvXor, w, a, b)},
			{"bvmul", ctx.BvMul(a, kc), ctx.raw(OpBvMul, w, a, kc)},
			{"bvshl", ctx.BvShl(a, kc), ctx.raw(OpBvShl, w, a, kc)},
			{"bvlshr", ctx.BvLshr(a, kc), ctx.raw(OpBvLshr, w, a, kc)},
			{"bvashr", ctx.BvAshr(a, kc), ctx.raw(OpBvAshr, w, a, kc)},
			{"bvudiv", ctx.BvUDiv(a, ctx.Const(k|1, w)), ctx.raw(OpBvUDiv, w, a, ctx.Const(k|1, w))},
			{"bvurem", ctx.BvURem(a, ctx.Const(k|1, w)), ctx.raw(OpBvURem, w, a, ctx.Const(k|1, w))},
			{"extract", ctx.Extract(a, hi, lo), ctx.mk(&Term{Op: OpExtract, W: hi - lo + 1, Args: []*Term{a}, Val: uint64(hi), Lo: lo})},
			{"ite", ctx.Ite(ctx.Ult(a, b), a, b), ctx.raw(OpIte, w, ctx.Ult(a, b), a, b)},
		}
		bools := []pair{
			{"eq", ctx.Eq(a, b), ctx.raw(OpEq, 0, a, b)},
			{"ult", ctx.Ult(a, b), ctx.raw(OpUlt, 0, a, b)},
			{"slt", ctx.Slt(a, b), ctx.raw(OpSlt, 0, a, b)},
			{"eqc", ctx.Eq(a, kc), ctx.raw(OpEq, 0, a, kc)},
			{"ultc", ctx.Ult(a, kc), ctx.raw(OpUlt, 0, a, kc)},
		}
		for _, p := range append(ps, bools...) {
			if p.smart == p.raw {
				continue
			}
			r, _ := s.Check([]*Term{ctx.raw(OpNot, 0, ctx.raw(OpEq, 0, p.smart, p.raw))}, nil)
			if r != Unsat {
				fails++
				if len(msgs) < 5 {
					msgs = append(msgs, fmt.Sprintf("%s: %s vs %s => %s", p.name, p.smart.String(), p.raw.String(), r))
				}
			}
		}
	}
	return s.Queries, fails, msgs
}
