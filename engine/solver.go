package main

// One long-lived SMT solver process per worker (z3 -in by default); terms are
// sent once as define-fun at the global level, queries are push/assert/check/pop.

import (
	"bufio"
	"fmt"
	"io"
	"os/exec"
	"strconv"
	"strings"
	"time"
)

type Result int

const (
	Unsat Result = iota
	Sat
	Unknown
)

func (r Result) String() string { return [...]string{"unsat", "sat", "unknown"}[r] }

type Solver struct {
	ctx      *Ctx
	cmd      *exec.Cmd
	in       io.WriteCloser
	out      *bufio.Reader
	emitted  map[int]bool
	declared map[string]bool
	kind     string // z3 | z3-new | cvc5
	timeout  int    // ms per query

	// statistics
	Queries  int
	NSat     int
	NUnsat   int
	NUnknown int
	Errors   int
	Time     time.Duration
	Log      io.Writer // optional full query log (for solver diffing)
}

func NewSolver(ctx *Ctx, kind string, timeoutMs int) (*Solver, error) {
	s := &Solver{ctx: ctx, kind: kind, timeout: timeoutMs}
	if err := s.start(); err != nil {
		return nil, err
	}
	return s, nil
}

func (s *Solver) start() error {
	var cmd *exec.Cmd
	switch s.kind {
	case "z3":
		cmd = exec.Command("z3", "-in")
	case "z3-new", "":
		cmd = exec.Command("z3-new", "-in")
	case "cvc5":
		cmd = exec.Command("cvc5", "--incremental", "--lang=smt2", fmt.Sprintf("--tlimit-per=%d", s.timeout))
	default:
		return fmt.Errorf("unknown solver %q", s.kind)
	}
	in, err := cmd.StdinPipe()
	if err != nil {
		return err
	}
	out, err := cmd.StdoutPipe()
	if err != nil {
		return err
	}
	cmd.Stderr = cmd.Stdout
	if err := cmd.Start(); err != nil {
		return err
	}
	s.cmd, s.in, s.out = cmd, in, bufio.NewReaderSize(out, 1<<16)
	s.emitted = map[int]bool{}
	s.declared = map[string]bool{}
	if s.kind == "cvc5" {
		s.send("(set-option :global-declarations true)\n(set-option :produce-models true)\n(set-logic ALL)\n")
	} else {
		s.send(fmt.Sprintf("(set-option :global-declarations true)\n(set-option :timeout %d)\n", s.timeout))
	}
	return nil
}

func (s *Solver) Close() {
	if s.cmd != nil {
		s.in.Close()
		s.cmd.Process.Kill()
		s.cmd.Wait()
		s.cmd = nil
	}
}

func (s *Solver) send(txt string) {
	if s.Log != nil {
		io.WriteString(s.Log, txt)
	}
	io.WriteString(s.in, txt)
}

// emit defines t and everything below it (once).
func (s *Solver) emit(sb *strings.Builder, t *Term) {
	if s.emitted[t.ID] {
		return
	}
	s.emitted[t.ID] = true
	switch t.Op {
	case OpConst:
		return
	case OpVar:
		if !s.declared[t.Name] {
			s.declared[t.Name] = true
			fmt.Fprintf(sb, "(declare-const %s %s)\n", t.Name, sortStr(t.W))
		}
		return
	}
	for _, a := range t.Args {
		s.emit(sb, a)
	}
	fmt.Fprintf(sb, "(define-fun t%d () %s %s)\n", t.ID, sortStr(t.W), t.def())
}

func (s *Solver) readLine() (string, error) {
	line, err := s.out.ReadString('\n')
	return strings.TrimSpace(line), err
}

// Check decides satisfiability of the conjunction of asserts. If wantModel is
// non-nil and the answer is sat, values of those terms are returned.
func (s *Solver) Check(asserts []*Term, wantModel []*Term) (Result, []uint64) {
	start := time.Now()
	defer func() { s.Time += time.Since(start) }()
	s.Queries++
	var sb strings.Builder
	for _, a := range asserts {
		s.emit(&sb, a)
	}
	for _, a := range wantModel {
		s.emit(&sb, a)
	}
	sb.WriteString("(push 1)\n")
	for _, a := range asserts {
		if a.IsConst() {
			if a.Val == 0 {
				sb.WriteString("(assert false)\n")
			}
			continue
		}
		fmt.Fprintf(&sb, "(assert %s)\n", a.ref())
	}
	sb.WriteString("(check-sat)\n")
	s.send(sb.String())
	res := Unknown
	line, err := s.readLine()
	for err == nil && line == "" {
		line, err = s.readLine()
	}
	if err != nil {
		s.Errors++
		s.restart()
		s.NUnknown++
		return Unknown, nil
	}
	switch {
	case line == "sat":
		res = Sat
	case line == "unsat":
		res = Unsat
	case line == "unknown" || line == "timeout":
		res = Unknown
	default:
		// (error ...) or anything unexpected: inconclusive; resync the process
		s.Errors++
		s.restart()
		s.NUnknown++
		return Unknown, nil
	}
	var vals []uint64
	if res == Sat && len(wantModel) > 0 {
		vals = make([]uint64, len(wantModel))
		var q strings.Builder
		nq := 0
		for _, t := range wantModel {
			if !t.IsConst() {
				fmt.Fprintf(&q, "(get-value (%s))\n", t.ref())
				nq++
			}
		}
		if nq > 0 {
			s.send(q.String())
		}
		for i, t := range wantModel {
			if t.IsConst() {
				vals[i] = t.Val
				continue
			}
			v, ok := s.readValue()
			if !ok {
				s.Errors++
				s.restart()
				s.NUnknown++
				return Unknown, nil
			}
			vals[i] = v
		}
	}
	s.send("(pop 1)\n")
	switch res {
	case Sat:
		s.NSat++
	case Unsat:
		s.NUnsat++
	default:
		s.NUnknown++
	}
	return res, vals
}

func (s *Solver) restart() {
	s.Close()
	s.start()
}

// readValue parses the reply of (get-value (x)): ((x #x0a)) | ((x #b01)) | ((x true)) | ((x (_ bv10 32)))
func (s *Solver) readValue() (uint64, bool) {
	depth := 0
	var buf strings.Builder
	for {
		line, err := s.out.ReadString('\n')
		if err != nil {
			return 0, false
		}
		buf.WriteString(line)
		depth += strings.Count(line, "(") - strings.Count(line, ")")
		if depth <= 0 && strings.TrimSpace(buf.String()) != "" {
			break
		}
	}
	txt := strings.TrimSpace(buf.String())
	if strings.HasPrefix(txt, "(error") {
		return 0, false
	}
	if i := strings.LastIndex(txt, "#x"); i >= 0 {
		h := strings.TrimRight(txt[i+2:], ") \n")
		v, err := strconv.ParseUint(h, 16, 64)
		return v, err == nil
	}
	if i := strings.LastIndex(txt, "#b"); i >= 0 {
		h := strings.TrimRight(txt[i+2:], ") \n")
		v, err := strconv.ParseUint(h, 2, 64)
		return v, err == nil
	}
	if i := strings.LastIndex(txt, "(_ bv"); i >= 0 {
		f := strings.Fields(txt[i+5:])
		v, err := strconv.ParseUint(f[0], 10, 64)
		return v, err == nil
	}
	if strings.Contains(txt, " true)") {
		return 1, true
	}
	if strings.Contains(txt, " false)") {
		return 0, true
	}
	return 0, false
}
