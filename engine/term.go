package main

// Hash-consed term DAG over SMT-LIB bit-vectors / Bool with aggressive
// normalisation (segment normal form for concat/extract/shift/or/and).

import (
	"fmt"
	"math/bits"
	"strconv"
	"strings"
)

type Op uint8

const (
	OpConst Op = iota
	OpVar
	OpNot
	OpAnd
	OpOr
	OpEq
	OpIte
	OpBvNot
	OpBvNeg
	OpBvAnd
	OpBvOr
	OpBvXor
	OpBvAdd
	OpBvSub
	OpBvMul
	OpBvUDiv
	OpBvURem
	OpBvSDiv
	OpBvSRem
	OpBvShl
	OpBvLshr
	OpBvAshr
	OpUlt
	OpUle
	OpSlt
	OpSle
	OpConcat
	OpExtract
	OpSignExt
	OpFpEq
	OpFpLt
	OpFpLe
	OpFpIsNaN
)

var opNames = map[Op]string{
	OpNot: "not", OpAnd: "and", OpOr: "or", OpEq: "=", OpIte: "ite", OpBvNot: "bvnot", OpBvNeg: "bvneg",
	OpBvAnd: "bvand", OpBvOr: "bvor", OpBvXor: "bvxor", OpBvAdd: "bvadd", OpBvSub: "bvsub", OpBvMul: "bvmul",
	OpBvUDiv: "bvudiv", OpBvURem: "bvurem", OpBvSDiv: "bvsdiv", OpBvSRem: "bvsrem", OpBvShl: "bvshl",
	OpBvLshr: "bvlshr", OpBvAshr: "bvashr", OpUlt: "bvult", OpUle: "bvule", OpSlt: "bvslt", OpSle: "bvsle",
	OpConcat: "concat",
}

// Term: W==0 means Bool sort, otherwise (_ BitVec W), W<=64.
type Term struct {
	ID   int
	Op   Op
	W    int
	Args []*Term
	Val  uint64 // const value, or hi for extract / target width for signext
	Lo   int    // lo for extract
	Name string
}

func (t *Term) IsConst() bool { return t.Op == OpConst }
func (t *Term) IsBool() bool  { return t.W == 0 }

type tkey struct {
	op         Op
	w          int
	val        uint64
	lo         int
	a0, a1, a2 int
	rest       string
}

type Ctx struct {
	tab   map[tkey]*Term
	terms []*Term
	nvar  int
	True  *Term
	False *Term
	c64   map[uint64]*Term
	c8    [256]*Term
}

func NewCtx() *Ctx {
	c := &Ctx{tab: map[tkey]*Term{}, c64: map[uint64]*Term{}}
	c.True = c.mk(&Term{Op: OpConst, W: 0, Val: 1})
	c.False = c.mk(&Term{Op: OpConst, W: 0, Val: 0})
	return c
}

func (c *Ctx) key(t *Term) tkey {
	k := tkey{op: t.Op, w: t.W, val: t.Val, lo: t.Lo, a0: -1, a1: -1, a2: -1, rest: t.Name}
	n := len(t.Args)
	if n > 0 {
		k.a0 = t.Args[0].ID
	}
	if n > 1 {
		k.a1 = t.Args[1].ID
	}
	if n > 2 {
		k.a2 = t.Args[2].ID
	}
	if n > 3 {
		var sb strings.Builder
		for _, a := range t.Args[3:] {
			sb.WriteString(strconv.Itoa(a.ID))
			sb.WriteByte(',')
		}
		k.rest = sb.String()
	}
	return k
}

func (c *Ctx) mk(t *Term) *Term {
	k := c.key(t)
	if x, ok := c.tab[k]; ok {
		return x
	}
	t.ID = len(c.terms)
	c.terms = append(c.terms, t)
	c.tab[k] = t
	return t
}

func mask(w int) uint64 {
	if w >= 64 {
		return ^uint64(0)
	}
	return (uint64(1) << uint(w)) - 1
}

func sext64(v uint64, w int) int64 {
	if w >= 64 {
		return int64(v)
	}
	sh := uint(64 - w)
	return int64(v<<sh) >> sh
}

func (c *Ctx) Const(v uint64, w int) *Term {
	if w == 0 {
		if v != 0 {
			return c.True
		}
		return c.False
	}
	v &= mask(w)
	if w == 64 {
		if t, ok := c.c64[v]; ok {
			return t
		}
		t := c.mk(&Term{Op: OpConst, W: w, Val: v})
		c.c64[v] = t
		return t
	}
	if w == 8 {
		if t := c.c8[v]; t != nil {
			return t
		}
		t := c.mk(&Term{Op: OpConst, W: w, Val: v})
		c.c8[v] = t
		return t
	}
	return c.mk(&Term{Op: OpConst, W: w, Val: v})
}

func (c *Ctx) Bool(b bool) *Term {
	if b {
		return c.True
	}
	return c.False
}

func (c *Ctx) Var(name string, w int) *Term {
	return c.mk(&Term{Op: OpVar, W: w, Name: name})
}

func (c *Ctx) raw(op Op, w int, args ...*Term) *Term {
	return c.mk(&Term{Op: op, W: w, Args: args})
}

// ---------- boolean ----------

func (c *Ctx) Not(a *Term) *Term {
	if a.W != 0 {
		panic("Not on non-bool")
	}
	if a.IsConst() {
		return c.Bool(a.Val == 0)
	}
	if a.Op == OpNot {
		return a.Args[0]
	}
	return c.raw(OpNot, 0, a)
}

func (c *Ctx) And(a, b *Term) *Term {
	if a.IsConst() {
		if a.Val == 0 {
			return c.False
		}
		return b
	}
	if b.IsConst() {
		if b.Val == 0 {
			return c.False
		}
		return a
	}
	if a == b {
		return a
	}
	if a.ID > b.ID {
		a, b = b, a
	}
	return c.raw(OpAnd, 0, a, b)
}

func (c *Ctx) Or(a, b *Term) *Term {
	if a.IsConst() {
		if a.Val != 0 {
			return c.True
		}
		return b
	}
	if b.IsConst() {
		if b.Val != 0 {
			return c.True
		}
		return a
	}
	if a == b {
		return a
	}
	if a.ID > b.ID {
		a, b = b, a
	}
	return c.raw(OpOr, 0, a, b)
}

func (c *Ctx) Ite(cond, a, b *Term) *Term {
	if cond.IsConst() {
		if cond.Val != 0 {
			return a
		}
		return b
	}
	if a == b {
		return a
	}
	if a.W == 0 {
		if a.IsConst() && b.IsConst() {
			if a.Val != 0 {
				return cond
			}
			return c.Not(cond)
		}
		// bool ite -> and/or
		return c.Or(c.And(cond, a), c.And(c.Not(cond), b))
	}
	return c.raw(OpIte, a.W, cond, a, b)
}

func (c *Ctx) Eq(a, b *Term) *Term {
	if a.W != b.W {
		panic(fmt.Sprintf("Eq width mismatch %d %d", a.W, b.W))
	}
	if a == b {
		return c.True
	}
	if a.IsConst() && b.IsConst() {
		return c.Bool(a.Val == b.Val)
	}
	if a.W == 0 {
		if a.IsConst() {
			if a.Val != 0 {
				return b
			}
			return c.Not(b)
		}
		if b.IsConst() {
			if b.Val != 0 {
				return a
			}
			return c.Not(a)
		}
	}
	if a.IsConst() {
		a, b = b, a
	}
	// b may be const
	if b.IsConst() {
		// ite(c, k1, k2) == k
		if a.Op == OpIte && a.Args[1].IsConst() && a.Args[2].IsConst() {
			e1 := a.Args[1].Val == b.Val
			e2 := a.Args[2].Val == b.Val
			switch {
			case e1 && e2:
				return c.True
			case e1:
				return a.Args[0]
			case e2:
				return c.Not(a.Args[0])
			default:
				return c.False
			}
		}
		// concat(...) == const  -> piecewise
		if a.Op == OpConcat {
			res := c.True
			lo := a.W
			for _, s := range a.Args {
				lo -= s.W
				piece := c.Const(b.Val>>uint(lo), s.W)
				res = c.And(res, c.Eq(s, piece))
			}
			return res
		}
		if a.Op == OpSignExt {
			x := a.Args[0]
			// value must be sign extension of its low part
			lowv := b.Val & mask(x.W)
			if uint64(sext64(lowv, x.W))&mask(a.W) != b.Val {
				return c.False
			}
			return c.Eq(x, c.Const(lowv, x.W))
		}
	}
	if a.Op == OpConcat && b.Op == OpConcat && len(a.Args) == len(b.Args) {
		same := true
		for i := range a.Args {
			if a.Args[i].W != b.Args[i].W {
				same = false
				break
			}
		}
		if same {
			res := c.True
			for i := range a.Args {
				res = c.And(res, c.Eq(a.Args[i], b.Args[i]))
			}
			return res
		}
	}
	if a.ID > b.ID {
		a, b = b, a
	}
	return c.raw(OpEq, 0, a, b)
}

// ---------- segments ----------

type seg struct {
	t      *Term // nil => const
	hi, lo int
	cv     uint64
}

func (s seg) w() int { return s.hi - s.lo + 1 }

func (c *Ctx) segs(t *Term) []seg {
	switch t.Op {
	case OpConst:
		return []seg{{nil, t.W - 1, 0, t.Val}}
	case OpConcat:
		var out []seg
		for _, a := range t.Args {
			out = append(out, c.segs(a)...)
		}
		return out
	case OpExtract:
		return []seg{{t.Args[0], int(t.Val), t.Lo, 0}}
	}
	return []seg{{t, t.W - 1, 0, 0}}
}

func (c *Ctx) segTerm(s seg) *Term {
	if s.t == nil {
		return c.Const(s.cv, s.w())
	}
	if s.lo == 0 && s.hi == s.t.W-1 {
		return s.t
	}
	return c.mk(&Term{Op: OpExtract, W: s.w(), Args: []*Term{s.t}, Val: uint64(s.hi), Lo: s.lo})
}

// fromSegs builds a term from MSB-first segments, merging where possible.
func (c *Ctx) fromSegs(ss []seg) *Term {
	var out []seg
	for _, s := range ss {
		if s.w() <= 0 {
			continue
		}
		if n := len(out); n > 0 {
			p := &out[n-1]
			if p.t == nil && s.t == nil && p.w()+s.w() <= 64 {
				p.cv = (p.cv << uint(s.w())) | (s.cv & mask(s.w()))
				p.hi = p.w() + s.w() - 1
				p.lo = 0
				continue
			}
			if p.t != nil && p.t == s.t && p.lo == s.hi+1 {
				p.lo = s.lo
				continue
			}
		}
		if s.t == nil {
			s = seg{nil, s.w() - 1, 0, s.cv & mask(s.w())}
		}
		out = append(out, s)
	}
	if len(out) == 1 {
		return c.segTerm(out[0])
	}
	args := make([]*Term, len(out))
	w := 0
	for i, s := range out {
		args[i] = c.segTerm(s)
		w += args[i].W
	}
	if w > 64 {
		panic("term wider than 64 bits")
	}
	return c.mk(&Term{Op: OpConcat, W: w, Args: args})
}

// sliceSegs extracts bits [hi:lo] from MSB-first segment list of total width w.
func sliceSegs(ss []seg, w, hi, lo int) []seg {
	var out []seg
	top := w - 1
	for _, s := range ss {
		shi := top
		slo := top - s.w() + 1
		top = slo - 1
		// overlap of [shi,slo] and [hi,lo]
		ohi, olo := shi, slo
		if hi < ohi {
			ohi = hi
		}
		if lo > olo {
			olo = lo
		}
		if ohi < olo {
			continue
		}
		// map into segment coordinates
		dHi := shi - ohi
		dLo := olo - slo
		if s.t == nil {
			v := (s.cv >> uint(dLo)) & mask(ohi-olo+1)
			out = append(out, seg{nil, ohi - olo, 0, v})
		} else {
			out = append(out, seg{s.t, s.hi - dHi, s.lo + dLo, 0})
		}
	}
	return out
}

func (c *Ctx) Extract(t *Term, hi, lo int) *Term {
	if lo == 0 && hi == t.W-1 {
		return t
	}
	if hi < lo || hi >= t.W {
		panic(fmt.Sprintf("bad extract %d %d of w%d", hi, lo, t.W))
	}
	if t.Op == OpSignExt {
		x := t.Args[0]
		if hi < x.W {
			return c.Extract(x, hi, lo)
		}
	}
	if t.Op == OpIte && t.Args[1].IsConst() && t.Args[2].IsConst() {
		return c.Ite(t.Args[0], c.Extract(t.Args[1], hi, lo), c.Extract(t.Args[2], hi, lo))
	}
	return c.fromSegs(sliceSegs(c.segs(t), t.W, hi, lo))
}

func (c *Ctx) Concat(hi, lo *Term) *Term {
	return c.fromSegs(append(c.segs(hi), c.segs(lo)...))
}

func (c *Ctx) ZeroExt(t *Term, w int) *Term {
	if w == t.W {
		return t
	}
	if w < t.W {
		return c.Extract(t, w-1, 0)
	}
	return c.fromSegs(append([]seg{{nil, w - t.W - 1, 0, 0}}, c.segs(t)...))
}

func (c *Ctx) SignExt(t *Term, w int) *Term {
	if w == t.W {
		return t
	}
	if w < t.W {
		return c.Extract(t, w-1, 0)
	}
	if t.IsConst() {
		return c.Const(uint64(sext64(t.Val, t.W)), w)
	}
	if t.Op == OpSignExt {
		return c.SignExt(t.Args[0], w)
	}
	// zero-extended value: top bit known zero
	ss := c.segs(t)
	if ss[0].t == nil && ss[0].w() >= 1 && (ss[0].cv>>uint(ss[0].w()-1))&1 == 0 {
		return c.ZeroExt(t, w)
	}
	return c.mk(&Term{Op: OpSignExt, W: w, Args: []*Term{t}, Val: uint64(w)})
}

// ---------- bit-vector arithmetic ----------

func (c *Ctx) BvNot(a *Term) *Term {
	if a.IsConst() {
		return c.Const(^a.Val, a.W)
	}
	if a.Op == OpBvNot {
		return a.Args[0]
	}
	return c.raw(OpBvNot, a.W, a)
}

func (c *Ctx) BvNeg(a *Term) *Term {
	if a.IsConst() {
		return c.Const(-a.Val, a.W)
	}
	return c.raw(OpBvNeg, a.W, a)
}

func (c *Ctx) chk(a, b *Term) {
	if a.W != b.W || a.W == 0 {
		panic(fmt.Sprintf("width mismatch %d vs %d", a.W, b.W))
	}
}

// splitAligned splits two segment lists on the union of their boundaries.
func splitAligned(a, b []seg, w int) ([]seg, []seg) {
	bounds := map[int]bool{}
	top := w
	for _, s := range a {
		top -= s.w()
		bounds[top] = true
	}
	top = w
	for _, s := range b {
		top -= s.w()
		bounds[top] = true
	}
	cut := func(ss []seg) []seg {
		var out []seg
		top := w - 1
		for _, s := range ss {
			shi := top
			slo := top - s.w() + 1
			top = slo - 1
			cur := shi
			for p := shi; p >= slo; p-- {
				if bounds[p] || p == slo {
					out = append(out, sliceSegs([]seg{s}, s.w(), cur-slo, p-slo)...)
					cur = p - 1
				}
			}
		}
		return out
	}
	return cut(a), cut(b)
}

func (c *Ctx) BvAnd(a, b *Term) *Term {
	c.chk(a, b)
	if a.IsConst() && b.IsConst() {
		return c.Const(a.Val&b.Val, a.W)
	}
	if a == b {
		return a
	}
	if a.IsConst() {
		a, b = b, a
	}
	if b.IsConst() {
		if b.Val == 0 {
			return b
		}
		if b.Val == mask(a.W) {
			return a
		}
		// mask by runs of ones/zeros
		sa, sb := splitAligned(c.segs(a), c.bitRuns(b.Val, a.W), a.W)
		ok := true
		out := make([]seg, len(sa))
		for i := range sa {
			m := sb[i].cv
			switch {
			case m == 0:
				out[i] = seg{nil, sa[i].w() - 1, 0, 0}
			case m == mask(sa[i].w()):
				out[i] = sa[i]
			case sa[i].t == nil:
				out[i] = seg{nil, sa[i].w() - 1, 0, sa[i].cv & m}
			default:
				ok = false
			}
		}
		if ok {
			return c.fromSegs(out)
		}
	}
	if a.ID > b.ID {
		a, b = b, a
	}
	return c.raw(OpBvAnd, a.W, a, b)
}

// bitRuns represents constant v as segments of uniform runs.
func (c *Ctx) bitRuns(v uint64, w int) []seg {
	var out []seg
	i := w - 1
	for i >= 0 {
		bit := (v >> uint(i)) & 1
		j := i
		for j-1 >= 0 && (v>>uint(j-1))&1 == bit {
			j--
		}
		n := i - j + 1
		var cv uint64
		if bit == 1 {
			cv = mask(n)
		}
		out = append(out, seg{nil, n - 1, 0, cv})
		i = j - 1
	}
	return out
}

func (c *Ctx) BvOr(a, b *Term) *Term {
	c.chk(a, b)
	if a.IsConst() && b.IsConst() {
		return c.Const(a.Val|b.Val, a.W)
	}
	if a == b {
		return a
	}
	if a.IsConst() && a.Val == 0 {
		return b
	}
	if b.IsConst() && b.Val == 0 {
		return a
	}
	sa, sb := splitAligned(c.segs(a), c.segs(b), a.W)
	if len(sa) == len(sb) {
		ok := true
		out := make([]seg, len(sa))
		for i := range sa {
			switch {
			case sa[i].t == nil && sa[i].cv == 0:
				out[i] = sb[i]
			case sb[i].t == nil && sb[i].cv == 0:
				out[i] = sa[i]
			case sa[i].t == nil && sb[i].t == nil:
				out[i] = seg{nil, sa[i].w() - 1, 0, sa[i].cv | sb[i].cv}
			case sa[i].t == nil && sa[i].cv == mask(sa[i].w()):
				out[i] = sa[i]
			case sb[i].t == nil && sb[i].cv == mask(sb[i].w()):
				out[i] = sb[i]
			case sa[i] == sb[i]:
				out[i] = sa[i]
			default:
				ok = false
			}
		}
		if ok {
			return c.fromSegs(out)
		}
	}
	if a.ID > b.ID {
		a, b = b, a
	}
	return c.raw(OpBvOr, a.W, a, b)
}

func (c *Ctx) BvXor(a, b *Term) *Term {
	c.chk(a, b)
	if a.IsConst() && b.IsConst() {
		return c.Const(a.Val^b.Val, a.W)
	}
	if a == b {
		return c.Const(0, a.W)
	}
	if a.IsConst() && a.Val == 0 {
		return b
	}
	if b.IsConst() && b.Val == 0 {
		return a
	}
	if a.ID > b.ID {
		a, b = b, a
	}
	return c.raw(OpBvXor, a.W, a, b)
}

func (c *Ctx) BvAdd(a, b *Term) *Term {
	c.chk(a, b)
	if a.IsConst() && b.IsConst() {
		return c.Const(a.Val+b.Val, a.W)
	}
	if a.IsConst() {
		a, b = b, a
	}
	if b.IsConst() {
		if b.Val == 0 {
			return a
		}
		// (x + k1) + k2
		if a.Op == OpBvAdd && a.Args[1].IsConst() {
			return c.BvAdd(a.Args[0], c.Const(a.Args[1].Val+b.Val, a.W))
		}
		return c.raw(OpBvAdd, a.W, a, b)
	}
	// keep const on the right: (x+k)+y -> (x+y)+k
	if a.Op == OpBvAdd && a.Args[1].IsConst() {
		return c.BvAdd(c.BvAdd(a.Args[0], b), a.Args[1])
	}
	if b.Op == OpBvAdd && b.Args[1].IsConst() {
		return c.BvAdd(c.BvAdd(a, b.Args[0]), b.Args[1])
	}
	if a.ID > b.ID {
		a, b = b, a
	}
	return c.raw(OpBvAdd, a.W, a, b)
}

func (c *Ctx) BvSub(a, b *Term) *Term {
	c.chk(a, b)
	if a == b {
		return c.Const(0, a.W)
	}
	if b.IsConst() {
		return c.BvAdd(a, c.Const(-b.Val, a.W))
	}
	if a.IsConst() && a.Val == 0 {
		return c.BvNeg(b)
	}
	// (x + k) - x -> k ; (x+y)-x -> y
	if a.Op == OpBvAdd {
		if a.Args[0] == b {
			return a.Args[1]
		}
		if a.Args[1] == b {
			return a.Args[0]
		}
		if a.Args[1].IsConst() {
			return c.BvAdd(c.BvSub(a.Args[0], b), a.Args[1])
		}
	}
	if b.Op == OpBvAdd && b.Args[1].IsConst() {
		// a - (x+k) = (a-x) - k
		return c.BvAdd(c.BvSub(a, b.Args[0]), c.Const(-b.Args[1].Val, a.W))
	}
	return c.raw(OpBvSub, a.W, a, b)
}

func (c *Ctx) BvMul(a, b *Term) *Term {
	c.chk(a, b)
	if a.IsConst() && b.IsConst() {
		return c.Const(a.Val*b.Val, a.W)
	}
	if a.IsConst() {
		a, b = b, a
	}
	if b.IsConst() {
		if b.Val == 0 {
			return b
		}
		if b.Val == 1 {
			return a
		}
		if bits.OnesCount64(b.Val) == 1 {
			return c.BvShl(a, c.Const(uint64(bits.TrailingZeros64(b.Val)), a.W))
		}
	}
	return c.raw(OpBvMul, a.W, a, b)
}

func (c *Ctx) BvUDiv(a, b *Term) *Term {
	c.chk(a, b)
	if a.IsConst() && b.IsConst() && b.Val != 0 {
		return c.Const(a.Val/b.Val, a.W)
	}
	if b.IsConst() && b.Val == 1 {
		return a
	}
	if b.IsConst() && bits.OnesCount64(b.Val) == 1 {
		return c.BvLshr(a, c.Const(uint64(bits.TrailingZeros64(b.Val)), a.W))
	}
	return c.raw(OpBvUDiv, a.W, a, b)
}

func (c *Ctx) BvURem(a, b *Term) *Term {
	c.chk(a, b)
	if a.IsConst() && b.IsConst() && b.Val != 0 {
		return c.Const(a.Val%b.Val, a.W)
	}
	if b.IsConst() && bits.OnesCount64(b.Val) == 1 {
		return c.BvAnd(a, c.Const(b.Val-1, a.W))
	}
	return c.raw(OpBvURem, a.W, a, b)
}

func (c *Ctx) BvSDiv(a, b *Term) *Term {
	c.chk(a, b)
	if a.IsConst() && b.IsConst() && b.Val != 0 {
		x, y := sext64(a.Val, a.W), sext64(b.Val, b.W)
		if !(y == -1) {
			return c.Const(uint64(x/y), a.W)
		}
		return c.Const(uint64(-x), a.W)
	}
	if b.IsConst() && b.Val == 1 {
		return a
	}
	return c.raw(OpBvSDiv, a.W, a, b)
}

func (c *Ctx) BvSRem(a, b *Term) *Term {
	c.chk(a, b)
	if a.IsConst() && b.IsConst() && b.Val != 0 {
		x, y := sext64(a.Val, a.W), sext64(b.Val, b.W)
		if y == -1 {
			return c.Const(0, a.W)
		}
		return c.Const(uint64(x%y), a.W)
	}
	return c.raw(OpBvSRem, a.W, a, b)
}

func (c *Ctx) BvShl(a, b *Term) *Term {
	c.chk(a, b)
	if b.IsConst() {
		n := b.Val
		if n == 0 {
			return a
		}
		if n >= uint64(a.W) {
			return c.Const(0, a.W)
		}
		k := int(n)
		ss := sliceSegs(c.segs(a), a.W, a.W-1-k, 0)
		ss = append(ss, seg{nil, k - 1, 0, 0})
		return c.fromSegs(ss)
	}
	if a.IsConst() && a.Val == 0 {
		return a
	}
	return c.raw(OpBvShl, a.W, a, b)
}

func (c *Ctx) BvLshr(a, b *Term) *Term {
	c.chk(a, b)
	if b.IsConst() {
		n := b.Val
		if n == 0 {
			return a
		}
		if n >= uint64(a.W) {
			return c.Const(0, a.W)
		}
		k := int(n)
		ss := append([]seg{{nil, k - 1, 0, 0}}, sliceSegs(c.segs(a), a.W, a.W-1, k)...)
		return c.fromSegs(ss)
	}
	if a.IsConst() && a.Val == 0 {
		return a
	}
	return c.raw(OpBvLshr, a.W, a, b)
}

func (c *Ctx) BvAshr(a, b *Term) *Term {
	c.chk(a, b)
	if a.IsConst() && b.IsConst() {
		n := b.Val
		if n >= uint64(a.W) {
			n = uint64(a.W - 1)
		}
		return c.Const(uint64(sext64(a.Val, a.W)>>uint(n)), a.W)
	}
	if b.IsConst() && b.Val == 0 {
		return a
	}
	if b.IsConst() && b.Val < uint64(a.W) {
		// ashr by k = signext(extract(w-1,k))
		k := int(b.Val)
		return c.SignExt(c.Extract(a, a.W-1, k), a.W)
	}
	return c.raw(OpBvAshr, a.W, a, b)
}

func (c *Ctx) Ult(a, b *Term) *Term {
	c.chk(a, b)
	if a.IsConst() && b.IsConst() {
		return c.Bool(a.Val < b.Val)
	}
	if a == b {
		return c.False
	}
	if b.IsConst() && b.Val == 0 {
		return c.False
	}
	if a.IsConst() && a.Val == mask(a.W) {
		return c.False
	}
	if b.IsConst() && b.Val == 1 {
		return c.Eq(a, c.Const(0, a.W))
	}
	// zero-extended small value against large const
	if b.IsConst() {
		if hi := c.maxVal(a); hi < b.Val {
			return c.True
		}
	}
	if a.IsConst() {
		if hi := c.maxVal(b); hi <= a.Val {
			return c.False
		}
	}
	return c.raw(OpUlt, 0, a, b)
}

// maxVal: cheap upper bound of an unsigned term.
func (c *Ctx) maxVal(t *Term) uint64 {
	if t.IsConst() {
		return t.Val
	}
	ss := c.segs(t)
	var v uint64
	for _, s := range ss {
		if s.t == nil {
			v = v<<uint(s.w()) | s.cv
		} else {
			v = v<<uint(s.w()) | mask(s.w())
		}
	}
	if t.Op == OpIte {
		a, b := c.maxVal(t.Args[1]), c.maxVal(t.Args[2])
		if a > b {
			return a
		}
		return b
	}
	return v
}

func (c *Ctx) Ule(a, b *Term) *Term { return c.Not(c.Ult(b, a)) }

func (c *Ctx) Slt(a, b *Term) *Term {
	c.chk(a, b)
	if a.IsConst() && b.IsConst() {
		return c.Bool(sext64(a.Val, a.W) < sext64(b.Val, b.W))
	}
	if a == b {
		return c.False
	}
	// both known non-negative -> unsigned compare
	if c.nonNeg(a) && c.nonNeg(b) {
		return c.Ult(a, b)
	}
	return c.raw(OpSlt, 0, a, b)
}

func (c *Ctx) nonNeg(t *Term) bool {
	if t.IsConst() {
		return sext64(t.Val, t.W) >= 0
	}
	ss := c.segs(t)
	return ss[0].t == nil && (ss[0].cv>>uint(ss[0].w()-1))&1 == 0
}

func (c *Ctx) Sle(a, b *Term) *Term { return c.Not(c.Slt(b, a)) }

// ---------- floats (carried as 64-bit patterns) ----------

func (c *Ctx) FpEq(a, b *Term) *Term {
	if a.IsConst() && b.IsConst() && a.W == 64 {
		return c.Bool(f64(a.Val) == f64(b.Val))
	}
	return c.raw(OpFpEq, 0, a, b)
}
func (c *Ctx) FpLt(a, b *Term) *Term {
	if a.IsConst() && b.IsConst() && a.W == 64 {
		return c.Bool(f64(a.Val) < f64(b.Val))
	}
	return c.raw(OpFpLt, 0, a, b)
}
func (c *Ctx) FpLe(a, b *Term) *Term {
	if a.IsConst() && b.IsConst() && a.W == 64 {
		return c.Bool(f64(a.Val) <= f64(b.Val))
	}
	return c.raw(OpFpLe, 0, a, b)
}

// ---------- printing ----------

func sortStr(w int) string {
	if w == 0 {
		return "Bool"
	}
	return fmt.Sprintf("(_ BitVec %d)", w)
}

func (t *Term) ref() string {
	switch t.Op {
	case OpConst:
		if t.W == 0 {
			if t.Val != 0 {
				return "true"
			}
			return "false"
		}
		return fmt.Sprintf("(_ bv%d %d)", t.Val, t.W)
	case OpVar:
		return t.Name
	}
	return fmt.Sprintf("t%d", t.ID)
}

func fpOf(t *Term) string {
	if t.W == 64 {
		return "((_ to_fp 11 53) " + t.ref() + ")"
	}
	return "((_ to_fp 8 24) " + t.ref() + ")"
}

// def returns the SMT-LIB definition body of t (referring to args by name).
func (t *Term) def() string {
	switch t.Op {
	case OpExtract:
		return fmt.Sprintf("((_ extract %d %d) %s)", t.Val, t.Lo, t.Args[0].ref())
	case OpSignExt:
		return fmt.Sprintf("((_ sign_extend %d) %s)", t.W-t.Args[0].W, t.Args[0].ref())
	case OpFpEq:
		return "(fp.eq " + fpOf(t.Args[0]) + " " + fpOf(t.Args[1]) + ")"
	case OpFpLt:
		return "(fp.lt " + fpOf(t.Args[0]) + " " + fpOf(t.Args[1]) + ")"
	case OpFpLe:
		return "(fp.leq " + fpOf(t.Args[0]) + " " + fpOf(t.Args[1]) + ")"
	case OpFpIsNaN:
		return "(fp.isNaN " + fpOf(t.Args[0]) + ")"
	}
	var sb strings.Builder
	sb.WriteString("(")
	sb.WriteString(opNames[t.Op])
	for _, a := range t.Args {
		sb.WriteString(" ")
		sb.WriteString(a.ref())
	}
	sb.WriteString(")")
	return sb.String()
}

// String renders a term fully (debugging / evidence samples).
func (t *Term) String() string {
	switch t.Op {
	case OpConst, OpVar:
		return t.ref()
	case OpExtract:
		return fmt.Sprintf("%s[%d:%d]", t.Args[0].String(), t.Val, t.Lo)
	}
	var sb strings.Builder
	sb.WriteString("(")
	if n, ok := opNames[t.Op]; ok {
		sb.WriteString(n)
	} else {
		fmt.Fprintf(&sb, "op%d", t.Op)
	}
	for _, a := range t.Args {
		sb.WriteString(" ")
		s := a.String()
		if len(s) > 200 {
			s = s[:200] + "..."
		}
		sb.WriteString(s)
	}
	sb.WriteString(")")
	return sb.String()
}
