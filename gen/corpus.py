"""The generated type corpus (program dimension), by family."""
from schema import *

TIER = 'quick'   # set by gen.py --tier; thorough raises the shape bounds of the small families

def tparams(kind, **th):
    """per-job bound overrides used only in the thorough tier"""
    return {kind: [th]} if TIER == 'thorough' else {}

S = lambda k: (k,)

def leaf(name='Leaf', init=False):
    fs = [Field(1, 'optional', S('i32'), name='A', ptr=True), Field(2, 'default', S('string'), name='B')]
    if init:
        fs = [Field(1, 'optional', S('i32'), name='A', ptr=True), Field(2, 'optional', S('string'), name='B', default='"dflt"'),
              Field(3, 'default', S('i64'), name='C', default='7')]
    return StructDef(name, fs)

LEAF = leaf('Leaf')
LEAFD = leaf('LeafD', init=True)

DEFAULT_LIT = {'bool': 'true', 'i8': '3', 'i16': '-4', 'i32': '5', 'i64': '-6', 'double': '7.5', 'enum': '10',
               'string': '"8"', 'binary': '[]byte("9")'}

def fam_scalar():
    out = []
    for k in SCALARS:
        fs = [Field(1, 'default', S(k)), Field(2, 'required', S(k))]
        if k == 'binary':
            fs.append(Field(3, 'optional', S(k)))
            fs.append(Field(5, 'optional', S(k), ptr=True))   # *[]byte
        else:
            fs.append(Field(3, 'optional', S(k), ptr=True))
            fs.append(Field(4, 'optional', S(k)))
        out.append({'sd': StructDef('ScA_' + k, fs), 'kinds': ['codec'], 'params': tparams('codec', S=4)})
        fd = [Field(1, 'default', S(k), default=DEFAULT_LIT[k]), Field(2, 'optional', S(k), default=DEFAULT_LIT[k]),
              Field(3, 'optional', S(k)), Field(4, 'required', S(k))]
        out.append({'sd': StructDef('ScD_' + k, fd, has_init=True), 'kinds': ['codec'], 'params': tparams('codec', S=3)})
    return out

# FIXED: a struct with fixed-size fields only (no optional / pointer / variable-length field, no holder): its encoded size is
# a constant, except that a nil pointer to it is written as a bare STOP
FIXED = StructDef('Fixed', [Field(1, 'default', S('i32'), name='A'), Field(2, 'default', S('i64'), name='B'), Field(3, 'default', S('bool'), name='C'), Field(4, 'default', S('double'), name='D')])
ELEMS = [S(k) for k in SCALARS] + [('struct', LEAF, True), ('struct', LEAF, False), ('list', S('i32')),
                                    ('set', S('string')), ('map', S('string'), S('i64')), ('struct', FIXED, True), ('struct', FIXED, False)]
ELEM_NAMES = SCALARS + ['pstruct', 'vstruct', 'list_i32', 'set_string', 'map_string_i64', 'pfixed', 'vfixed']

def fam_list():
    out = []
    for e, n in zip(ELEMS, ELEM_NAMES):
        out.append({'sd': StructDef('Li_' + n, [Field(1, 'default', ('list', e))]), 'kinds': ['codec'], 'params': tparams('codec', S=2, L=3, M=2)})
        out.append({'sd': StructDef('Se_' + n, [Field(2, 'optional', ('set', e))]), 'kinds': ['codec'], 'params': tparams('codec', S=2, L=3, M=2)})
    return out

KEYS = [S(k) for k in ['bool', 'i8', 'i16', 'i32', 'i64', 'double', 'enum', 'string']] + [('struct', LEAF, True)]
KEY_NAMES = ['bool', 'i8', 'i16', 'i32', 'i64', 'double', 'enum', 'string', 'pstruct']

def fam_map():
    out = []
    for k, kn in zip(KEYS, KEY_NAMES):
        for e, n in zip(ELEMS, ELEM_NAMES):
            out.append({'sd': StructDef('Mp_%s_%s' % (kn, n), [Field(1, 'default', ('map', k, e))]), 'kinds': ['codec'], 'params': (tparams('codec', S=2, L=2, M=3) if (e[0] in SCALARS and k[0] != 'struct') else tparams('codec', S=2, L=2, M=2))})
    return out

def fam_bytes(nmax=8):
    ns = [{'N': n} for n in range(0, nmax + 1)]
    S1 = StructDef('By_scalars', [Field(1, 'default', S('i32')), Field(2, 'required', S('bool')), Field(3, 'optional', S('i64'), ptr=True),
                                  Field(4, 'default', S('string')), Field(5, 'optional', S('binary'))])
    S2 = StructDef('By_list', [Field(1, 'default', ('list', S('i16'))), Field(2, 'optional', ('set', S('string')))])
    S3 = StructDef('By_map', [Field(1, 'default', ('map', S('i8'), S('string'))), Field(2, 'default', ('map', S('string'), S('i32')))])
    S4 = StructDef('By_nest', [Field(1, 'default', ('struct', LEAF, True)), Field(2, 'default', ('list', ('struct', LEAF, False))),
                               Field(3, 'optional', ('struct', LEAFD, True))])
    S5 = StructDef('By_unk', [Field(1, 'default', S('i8')), Field(300, 'required', S('i16'))], has_unknown=True)
    S6 = StructDef('By_enum', [Field(1, 'default', S('enum')), Field(2, 'default', S('double')), Field(3, 'default', ('map', S('enum'), S('double')))])
    S7 = StructDef('By_small', [Field(1, 'default', ('list', S('bool'))), Field(2, 'default', ('set', S('i8'))), Field(3, 'optional', ('list', S('i8')))])
    S8 = StructDef('By_nc', [Field(1, 'default', S('string'), nocopy=True), Field(2, 'optional', S('binary'), nocopy=True), Field(3, 'optional', S('string'), ptr=True, nocopy=True)])
    # (By_scalars at N = 12 exceeded the 200000-path budget in a measured run: capped at 11)
    return [{'sd': s, 'kinds': ['bytes'], 'params': {'bytes': [x for x in ns if not (s.name == 'By_scalars' and x['N'] > 11)]}} for s in (S1, S2, S3, S4, S5, S6, S7, S8)]

def pair(w, t, orders=3, reach=None, hop=False, dup=False):
    d = {'w': w, 't': t, 'kinds': ['decmsg'] + (['hop'] if hop else []), 'params': {'decmsg': [{'orders': orders}]}}
    if dup:
        # a second variant in which every struct of the message repeats one of its scalar fields (same id sent twice)
        d['params']['decmsg'].append({'orders': 1, 'dup': 1})
    if reach:
        d['reach'] = reach
    return d

def fam_evolve(orders=3):
    W1f = lambda: [Field(1, 'default', S('i32')), Field(2, 'default', S('string')), Field(3, 'default', ('list', S('i16'))),
                   Field(4, 'default', ('struct', LEAF, True)), Field(5, 'default', ('map', S('i8'), S('string'))), Field(6, 'optional', S('double'), ptr=True)]
    W1 = StructDef('EvW1', W1f())
    same = StructDef('EvSame', W1f())
    minus = StructDef('EvMinus', [Field(1, 'default', S('i32')), Field(4, 'default', ('struct', LEAF, True))])
    minusH = StructDef('EvMinusH', [Field(1, 'default', S('i32')), Field(4, 'default', ('struct', LEAF, True))], has_unknown=True)
    plus = StructDef('EvPlus', W1f() + [Field(7, 'default', S('i64')), Field(9, 'optional', S('string'), ptr=True), Field(10, 'optional', ('list', S('string')))])
    retyped = StructDef('EvRetyped', [Field(1, 'default', S('i64')), Field(2, 'default', S('binary')), Field(3, 'default', ('set', S('i16'))),
                                      Field(4, 'default', ('map', S('i8'), S('i8'))), Field(5, 'default', ('struct', LEAF, True)), Field(6, 'default', S('i64'))], has_unknown=True)
    renum = StructDef('EvRenum', [Field(11, 'default', S('i32')), Field(12, 'default', S('string')), Field(260, 'default', ('list', S('i16')))], has_unknown=True)
    out = [pair(W1, same, orders, dup=True), pair(W1, minus, orders), pair(W1, minusH, orders, hop=True, dup=True), pair(W1, plus, orders), pair(W1, retyped, orders, hop=True, dup=True), pair(W1, renum, orders, hop=True)]
    # alternating known / unknown fields: several separate runs of unknown fields of equal and unequal sizes
    wa = StructDef('EvAltW', [Field(1, 'default', S('i32')), Field(2, 'default', S('string')), Field(3, 'default', S('i64')), Field(4, 'default', S('i32')),
                              Field(5, 'default', S('string')), Field(6, 'default', S('i8')), Field(7, 'default', S('i32')), Field(8, 'default', S('i16'))])
    ta = StructDef('EvAltH', [Field(2, 'default', S('string')), Field(4, 'default', S('i32')), Field(6, 'default', S('i8'))], has_unknown=True)
    tb = StructDef('EvAltH2', [Field(1, 'default', S('i32')), Field(3, 'default', S('i64')), Field(5, 'default', S('string')), Field(7, 'default', S('i32'))], has_unknown=True)
    out.append(pair(wa, ta, orders, hop=True))
    out.append(pair(wa, tb, orders, hop=True))
    # unknown fields of every wire type nested inside known containers
    extras = [S('bool'), S('i8'), S('i16'), S('i32'), S('i64'), S('double'), S('string'), ('struct', LEAF, True),
              ('map', S('string'), S('i32')), ('set', S('i64')), ('list', S('string'))]
    for n, x in enumerate(extras):
        wi = StructDef('EvWIn%d' % n, [Field(1, 'default', S('i32')), Field(2, 'default', x), Field(3, 'default', S('i8'))])
        ti = StructDef('EvTIn%d' % n, [Field(1, 'default', S('i32')), Field(3, 'default', S('i8'))], has_unknown=(n % 2 == 0))
        wo = StructDef('EvWOut%d' % n, [Field(1, 'default', ('list', ('struct', wi, n % 3 == 0))), Field(2, 'default', ('map', S('i16'), ('struct', wi, True)))])
        to = StructDef('EvTOut%d' % n, [Field(1, 'default', ('list', ('struct', ti, n % 3 == 0))), Field(2, 'default', ('map', S('i16'), ('struct', ti, True)))])
        out.append(pair(wo, to, 2, hop=(n % 2 == 0)))
    # the same named int64 Go type as an enum on one side and as a plain i64 on the other (either registration order):
    # the reader's wire types are the ones ITS tags declare, whatever another struct said about the same Go type
    en, pl = S('enum'), S('i64n')
    for n, (a, b) in enumerate(((en, pl), (pl, en))):
        we = StructDef('EvEnW%d' % n, [Field(1, 'default', a), Field(2, 'default', ('list', a)), Field(3, 'default', ('map', S('i8'), a)), Field(4, 'default', S('i16'))])
        te = StructDef('EvEnT%d' % n, [Field(1, 'default', b), Field(2, 'default', ('list', b)), Field(3, 'default', ('map', S('i8'), b)), Field(4, 'default', S('i16'))], has_unknown=(n == 0))
        ts = StructDef('EvEnS%d' % n, [Field(1, 'default', b), Field(2, 'default', ('list', b)), Field(3, 'default', ('map', S('i8'), b)), Field(4, 'default', S('i16'))])
        out.append(pair(we, te, 1))
        out.append(pair(ts, ts, 1))   # registered after a struct using the other flavour? no: on its own (control)
    return out

def fam_required():
    out = []
    for name, ids in (('RqLo', [0, 1, 63, 64, 65, 127]), ('RqHi', [128, 255, 256, 32767, 32768, 65534])):
        w = StructDef(name + 'W', [Field(i, 'optional', S('i8'), ptr=True, name='F%d' % i) for i in ids])
        t = StructDef(name + 'T', [Field(i, 'required', S('i8'), name='F%d' % i) for i in ids])
        out.append(pair(w, t, 2, reach=['end', 'ok', 'missing'], dup=True))
    # required field with the wrong wire type does not count; nested required inside list / map / struct
    wi = StructDef('RqInW', [Field(1, 'optional', S('i32'), ptr=True), Field(2, 'optional', S('string'), ptr=True)])
    ti = StructDef('RqInT', [Field(1, 'required', S('i32')), Field(2, 'required', S('string'))])
    ww = StructDef('RqNestW', [Field(1, 'default', ('list', ('struct', wi, True))), Field(2, 'default', ('map', S('i8'), ('struct', wi, True))), Field(3, 'optional', ('struct', wi, True))])
    tt = StructDef('RqNestT', [Field(1, 'default', ('list', ('struct', ti, True))), Field(2, 'default', ('map', S('i8'), ('struct', ti, False))), Field(3, 'optional', ('struct', ti, True))])
    out.append(pair(ww, tt, 2, reach=['end', 'ok', 'missing'], dup=True))
    # required fields inside struct-typed map KEYS (and keys next to values that have them too): an error raised while
    # decoding a key must surface like one raised in a value
    wk = StructDef('RqKeyW', [Field(1, 'default', ('map', ('struct', wi, True), S('string'))), Field(2, 'default', ('map', ('struct', wi, True), ('struct', wi, True)))])
    tk = StructDef('RqKeyT', [Field(1, 'default', ('map', ('struct', ti, True), S('string'))), Field(2, 'default', ('map', ('struct', ti, True), ('struct', ti, True)))])
    out.append(pair(wk, tk, 1, reach=['end', 'ok', 'missing']))
    # an outer struct lacking a required field while a nested struct (with required fields of its own) carries the same id
    for n, mk in enumerate([lambda w, t: (('struct', w, True), ('struct', t, True)),
                            lambda w, t: (('list', ('struct', w, True)), ('list', ('struct', t, False))),
                            lambda w, t: (('map', S('i8'), ('struct', w, True)), ('map', S('i8'), ('struct', t, True)))]):
        iw = StructDef('RqShIW%d' % n, [Field(1, 'optional', S('i8'), ptr=True), Field(2, 'optional', S('string'), ptr=True)])
        it = StructDef('RqShIT%d' % n, [Field(1, 'required', S('i8')), Field(2, 'required', S('string'))])
        tw, tt = mk(iw, it)
        ow_ = StructDef('RqShW%d' % n, [Field(1, 'optional', S('i8'), ptr=True), Field(2, 'optional', S('string'), ptr=True, name='Name'), Field(5, 'default', tw)])
        ot_ = StructDef('RqShT%d' % n, [Field(1, 'required', S('i8')), Field(2, 'required', S('string'), name='Name'), Field(5, 'default', tt)])
        out.append(pair(ow_, ot_, 3, reach=['end', 'ok', 'missing'], dup=True))
    # required fields of every non-scalar kind (pointer to struct, by-value struct, list, map, string, binary): the writer
    # may omit any subset of them
    kw = StructDef('RqKindW', [Field(1, 'optional', ('struct', wi, True)), Field(2, 'optional', ('struct', wi, True)), Field(3, 'optional', ('list', S('i8'))),
                               Field(4, 'optional', ('map', S('i8'), S('i8'))), Field(5, 'optional', S('string'), ptr=True), Field(6, 'optional', S('binary'))])
    kt = StructDef('RqKindT', [Field(1, 'required', ('struct', ti, True)), Field(2, 'required', ('struct', ti, False)), Field(3, 'required', ('list', S('i8'))),
                               Field(4, 'required', ('map', S('i8'), S('i8'))), Field(5, 'required', S('string')), Field(6, 'required', S('binary'))])
    out.append(pair(kw, kt, 2, reach=['end', 'ok', 'missing']))
    # encode side: every required field is written even when nil / empty / zero. (The nested struct type has no required
    # fields of its own here: a nil pointer to a struct WITH required fields is encoded as a bare STOP, which the decoder
    # then rejects by C09 - for such values C01's 'comes back empty' and C09 cannot both hold, so they are left out.)
    kc = StructDef('RqKindC', [Field(1, 'required', ('struct', LEAF, True)), Field(2, 'required', ('struct', LEAF, False)), Field(3, 'required', ('list', S('i8'))),
                               Field(4, 'required', ('map', S('i8'), S('i8'))), Field(5, 'required', S('string')), Field(6, 'required', S('binary')), Field(7, 'required', S('i64'))])
    out.append({'sd': kc, 'kinds': ['codec'], 'params': {'codec': [{'S': 1, 'L': 1, 'M': 1, 'D': 1}]}})
    wr = StructDef('RqTypeW', [Field(1, 'optional', S('i64'), ptr=True), Field(2, 'default', S('i8'))])
    tr = StructDef('RqTypeT', [Field(1, 'required', S('i32')), Field(2, 'default', S('i8'))])
    out.append(pair(wr, tr, 2, reach=['end', 'missing']))
    return out

def fam_default():
    # C10: declared defaults. Codec harness for the omission rule; decmsg (writer omits fields) for the decode rule.
    out = []
    small = {'codec': [{'S': 1, 'L': 1, 'M': 1, 'D': 1}]}
    groups = {
        'DfA': [Field(1, 'optional', S('bool'), default='true'), Field(2, 'optional', S('i8'), default='3'), Field(3, 'optional', S('i16'), default='-4'),
                Field(4, 'optional', S('i32'), default='5')],
        'DfB': [Field(5, 'optional', S('i64'), default='-6'), Field(6, 'optional', S('double'), default='7.5'), Field(7, 'optional', S('enum'), default='10'),
                Field(10, 'optional', S('double'))],
        'DfC': [Field(8, 'optional', S('string'), default='"8"'), Field(9, 'optional', S('binary'), default='[]byte("9")'), Field(11, 'optional', S('binary'))],
        'DfD': [Field(12, 'optional', S('i32'), ptr=True), Field(13, 'default', S('i32'), default='77'), Field(14, 'optional', ('list', S('i32'))),
                Field(15, 'required', S('string'), default='"r"')],
    }
    for n, fs in groups.items():
        out.append({'sd': StructDef(n, fs, has_init=True), 'kinds': ['codec']})
    # values sharing storage with the declared default (a prefix of the default literal): equality with the default is
    # a comparison of contents AND length, never of addresses
    al = StructDef('DfAl', [Field(1, 'optional', S('string'), default='"dflt"'), Field(3, 'default', S('string'), default='"yz"')], has_init=True)
    out.append({'sd': al, 'kinds': ['codec'], 'params': {'codec': [{'alias': 1}]}})
    inner_w = StructDef('DfInW', [Field(1, 'optional', S('i32'), ptr=True), Field(2, 'optional', S('string'), ptr=True), Field(3, 'optional', S('i64'), ptr=True)])
    ow = StructDef('DfOutW', [Field(1, 'default', ('struct', inner_w, True)), Field(2, 'default', ('list', ('struct', inner_w, True))),
                              Field(3, 'default', ('list', ('struct', inner_w, False))), Field(7, 'optional', S('i32'), ptr=True)])
    ot = StructDef('DfOutT', [Field(1, 'default', ('struct', LEAFD, True)), Field(2, 'default', ('list', ('struct', LEAFD, True))),
                              Field(3, 'default', ('list', ('struct', LEAFD, False))), Field(7, 'optional', S('i32'), default='99')], has_init=True)
    ow2 = StructDef('DfOutW2', [Field(4, 'default', ('map', S('i8'), ('struct', inner_w, True))),
                                Field(5, 'default', ('map', S('i8'), ('struct', inner_w, False))), Field(6, 'default', ('struct', inner_w, False))])
    ot2 = StructDef('DfOutT2', [Field(4, 'default', ('map', S('i8'), ('struct', LEAFD, True))),
                                Field(5, 'default', ('map', S('i8'), ('struct', LEAFD, False))), Field(6, 'default', ('struct', LEAFD, False))])
    p1, p2 = pair(ow, ot, 2), pair(ow2, ot2, 2)
    for p in (p1, p2):
        p['params'] = {'decmsg': [{'orders': 2, 'plain': 1}]}   # no trailing bytes / pre-fill variants: the shape space is large already
    if TIER == 'thorough':
        p1['params'] = {'decmsg': [{'orders': 2, 'plain': 1, 'S': 1, 'L': 1}]}   # (S = L = 2 exceeded the path budget in a measured run)
    out.append(p1)
    out.append(p2)
    out.append({'sd': ot, 'kinds': ['codec'], 'params': small})
    out.append({'sd': ot2, 'kinds': ['codec'], 'params': small})
    # declared defaults on nocopy fields: a transmitted value (also the empty one) overrides the default in structs the
    # decoder creates by pointer, by value, as list element and as map value
    ncd = StructDef('DfNc', [Field(1, 'optional', S('string'), nocopy=True, default='"dflt"'), Field(2, 'default', S('string'), nocopy=True, default='"yz"'),
                             Field(3, 'optional', S('binary'), nocopy=True, default='[]byte("9")'), Field(4, 'optional', S('i32'), default='5')], has_init=True)
    ncw = StructDef('DfNcW', [Field(1, 'optional', S('string'), ptr=True), Field(2, 'optional', S('string'), ptr=True), Field(3, 'optional', S('binary')),
                              Field(4, 'optional', S('i32'), ptr=True)])
    for nm, (tw, tt) in (('P', (('struct', ncw, True), ('struct', ncd, True))), ('L', (('list', ('struct', ncw, False)), ('list', ('struct', ncd, False)))),
                         ('M', (('map', S('i8'), ('struct', ncw, False)), ('map', S('i8'), ('struct', ncd, False))))):
        pn = pair(StructDef('DfNcW' + nm, [Field(1, 'default', tw)]), StructDef('DfNcT' + nm, [Field(1, 'default', tt)]), 1)
        pn['params'] = {'decmsg': [{'orders': 1, 'plain': 1}]}
        out.append(pn)
    out.append(pair(ncw, ncd, 2))
    out.append({'sd': ncd, 'kinds': ['codec']})
    # two or more by-value elements with declared defaults: per-element scratch/slot state must not carry over from one
    # element to the next (an optional field present in one entry and omitted in the following one)
    two = {'codec': [{'S': 1, 'L': 2, 'M': 2, 'D': 1}]}
    out.append({'sd': StructDef('DfMv', [Field(1, 'default', ('map', S('i8'), ('struct', LEAFD, False)))]), 'kinds': ['codec'], 'params': two})
    out.append({'sd': StructDef('DfMvS', [Field(1, 'default', ('map', S('string'), ('struct', LEAFD, False)))]), 'kinds': ['codec'], 'params': two})
    out.append({'sd': StructDef('DfMvW', [Field(1, 'default', ('map', S('i32'), ('struct', inner_w, False)))]), 'kinds': ['codec'], 'params': two})
    out.append({'sd': StructDef('DfLv', [Field(1, 'default', ('list', ('struct', LEAFD, False)))]), 'kinds': ['codec'], 'params': two})
    return out

def fam_nocopy():
    inner = StructDef('NcIn', [Field(1, 'default', S('string'), nocopy=True), Field(2, 'default', S('string')), Field(3, 'optional', S('binary'), nocopy=True)])
    a = StructDef('NcA', [Field(1, 'default', S('string'), nocopy=True), Field(2, 'default', S('binary'), nocopy=True), Field(3, 'optional', S('string'), ptr=True, nocopy=True),
                          Field(4, 'default', S('string')), Field(5, 'default', S('binary')), Field(6, 'optional', S('string'), ptr=True)])
    b = StructDef('NcB', [Field(7, 'default', ('struct', inner, True)), Field(8, 'default', ('list', ('struct', inner, False))), Field(300, 'default', ('list', S('string')))])
    sm = {'codec': [{'S': 2, 'L': 1, 'M': 1, 'D': 1}]}
    # containers of structs that END in a nocopy field, next to ordinary strings (map keys / values, list elements decoded
    # right after such a struct): only tagged fields may view the input, whatever was decoded just before
    c = StructDef('NcC', [Field(1, 'default', ('map', S('string'), ('struct', inner, True))), Field(4, 'default', S('string'))])
    c2 = StructDef('NcC2', [Field(2, 'default', ('list', ('struct', inner, False))), Field(3, 'default', ('list', S('string')))])
    pc = pair(c, c, 1)
    pc['params'] = {'decmsg': [{'orders': 1, 'plain': 1, 'M': 2, 'L': 2, 'S': 1}]}
    pc2 = pair(c2, c2, 1)
    pc2['params'] = {'decmsg': [{'orders': 1, 'plain': 1, 'M': 2, 'L': 2, 'S': 1}]}
    pb = pair(b, b, 2)
    if TIER == 'thorough':
        pb['params'] = {'decmsg': [{'orders': 2, 'L': 1}]}   # (L = 2 exceeded the path budget in a measured run)
    return [pc, pc2, pair(a, a, 3), pb, {'sd': a, 'kinds': ['codec'], 'params': sm}, {'sd': b, 'kinds': ['codec'], 'params': sm}]

def fam_unknown():
    u1 = StructDef('UkA', [Field(1, 'default', S('i32')), Field(2, 'optional', S('string'), ptr=True)], has_unknown=True)
    u2 = StructDef('UkB', [Field(1, 'default', ('struct', u1, True)), Field(2, 'default', ('list', ('struct', u1, False))), Field(3, 'default', ('map', S('string'), ('struct', u1, True)))], has_unknown=True)
    # holders next to fixed-size fields only (no variable-length / optional / pointer field), with no tagged field at all,
    # and such structs BY VALUE inside containers: retained bytes are part of the size and of the output in every position
    u3 = StructDef('UkC', [Field(1, 'default', S('i32')), Field(2, 'required', S('i64')), Field(3, 'default', S('bool'))], has_unknown=True)
    u4 = StructDef('UkD', [], has_unknown=True)
    u5 = StructDef('UkE', [Field(1, 'default', ('list', ('struct', u3, False))), Field(2, 'default', ('map', S('i32'), ('struct', u3, False))), Field(3, 'default', ('struct', u4, False)),
                           Field(4, 'optional', ('struct', u3, True))])
    sm = {'codec': [{'S': 1, 'L': 1, 'M': 1, 'D': 1}]}
    return [{'sd': u1, 'kinds': ['codec']}, {'sd': u2, 'kinds': ['codec'], 'params': sm},
            {'sd': u3, 'kinds': ['codec']}, {'sd': u4, 'kinds': ['codec']}, {'sd': u5, 'kinds': ['codec'], 'params': {'codec': [{'S': 1, 'L': 2, 'M': 1, 'D': 1}]}}]

def fam_ids():
    out = []
    for name, ids in (('IdLo', [0, 1, 62, 63, 64, 65]), ('IdMid', [127, 128, 255, 256, 257]), ('IdHi', [32767, 32768, 65534]), ('IdMax', [1, 65535])):
        fs = []
        for n, i in enumerate(ids):
            fs.append(Field(i, ['default', 'required', 'optional'][n % 3], S(['i8', 'i16', 'string', 'i64', 'bool', 'double'][n % 6]), name='F%d' % i, ptr=(n % 3 == 2)))
        out.append({'sd': StructDef(name, fs), 'kinds': ['codec']})
    return out

def fam_nest():
    rec = StructDef('NsRec', [Field(1, 'default', S('i32'))])
    rec.fields.append(Field(2, 'optional', ('struct', rec, True), name='Next'))
    rec.decl_fields = rec.fields
    rec.fields.append(Field(3, 'default', ('list', ('struct', rec, True)), name='Kids'))
    a = StructDef('NsA', [Field(1, 'default', ('map', S('string'), ('list', ('map', S('i32'), S('string'))))), Field(2, 'default', ('list', ('list', ('set', S('i8')))))])
    b = StructDef('NsB', [Field(1, 'default', ('struct', LEAF, False)), Field(2, 'default', ('map', ('struct', LEAF, True), ('struct', LEAFD, False))),
                          Field(3, 'optional', ('list', ('struct', LEAFD, True)))])
    # mutually recursive types with further struct fields after the back-reference
    mra = StructDef('MrA', [Field(2, 'default', S('i32'))])
    mrb = StructDef('MrB', [Field(2, 'optional', ('struct', LEAF, True)), Field(3, 'default', ('list', ('struct', LEAFD, False)))])
    mra.fields.insert(0, Field(1, 'optional', ('struct', mrb, True), name='B'))
    mra.decl_fields = mra.fields
    mrb.fields.insert(0, Field(1, 'optional', ('struct', mra, True), name='A'))
    mrb.decl_fields = mrb.fields
    sm = {'codec': [{'S': 1, 'L': 1, 'M': 1, 'D': 2}]}
    return [{'sd': mra, 'kinds': ['codec'], 'params': sm}, {'sd': mrb, 'kinds': ['codec'], 'params': sm}, {'sd': rec, 'kinds': ['codec'], 'params': sm}, {'sd': a, 'kinds': ['codec'], 'params': sm}, {'sd': b, 'kinds': ['codec'], 'params': sm}]

def fam_threshold(full=False):
    th = StructDef('ThS', [Field(1, 'default', S('string')), Field(2, 'default', ('list', S('i64'))), Field(3, 'default', S('binary')),
                           Field(4, 'default', ('list', S('i8'))), Field(5, 'default', ('list', S('i16')))])
    slens = [255, 256, 257] + ([2047, 2048, 2049] if full else [2048])
    ps = [{'slen': x, 'llen': 0} for x in slens]
    llens = [31, 32, 33] + ([255, 256, 257] if full else [])
    ps += [{'slen': 0, 'llen': x} for x in llens]
    ps += [{'slen': 250, 'llen': 31}, {'slen': 3, 'llen': 33}]
    thm = StructDef('ThM', [Field(1, 'default', ('map', S('i32'), S('i64'))), Field(2, 'default', ('map', S('string'), S('i16'))),
                            Field(3, 'optional', ('map', S('i64'), S('string')))])
    pm = [{'mlen': x, 'slen': 1} for x in ([8, 9, 40, 257] if full else [9, 257])]
    return [{'sd': th, 'kinds': ['codec'], 'params': {'codec': ps}}, {'sd': thm, 'kinds': ['codec'], 'params': {'codec': pm}, 'unordered': True}]

def fam_dec2():
    a = StructDef('D2A', [Field(1, 'default', S('string')), Field(2, 'default', ('list', S('i64'))), Field(3, 'optional', S('i32'), ptr=True),
                          Field(4, 'default', ('list', S('string')))])
    b = StructDef('D2B', [Field(1, 'default', ('map', S('string'), S('i16'))), Field(2, 'default', ('struct', LEAF, True)), Field(3, 'default', S('binary'))])
    ps = [None, {'slen': 255, 'llen': 3}, {'slen': 7, 'llen': 33}, {'slen': 2040, 'llen': 1}]
    out = []
    for (x, y) in ((a, a), (a, b), (b, a)):
        # fail=k: a FAILING decode (message 1 truncated: 1 = STOP missing, 2 = cut in the middle) sits between the two
        out.append({'w': x, 't': y, 'kinds': ['dec2'], 'params': {'dec2': (ps + [{'fail': 1, 'slen': 7, 'llen': 2}] if x is a and y is a else [None]) + [{'fail': 1}, {'fail': 2}]}})
    return out

def fam_hist():
    leafv = ('struct', LEAF, False)
    h1 = StructDef('HsP', [Field(1, 'required', S('i32')), Field(64, 'required', S('string')), Field(2, 'default', ('map', S('i8'), leafv)),
                           Field(3, 'default', ('list', ('struct', LEAF, True))), Field(900, 'default', S('i64'))], has_unknown=True)
    w = StructDef('HsW', [Field(1, 'optional', S('i64'), ptr=True), Field(64, 'optional', S('i8'), ptr=True), Field(2, 'default', ('map', S('i8'), leafv)),
                          Field(7, 'default', S('string')), Field(900, 'optional', S('i16'), ptr=True)])
    t = StructDef('HsT', [Field(1, 'required', S('i64')), Field(64, 'required', S('i8')), Field(2, 'default', ('map', S('i8'), leafv)),
                          Field(900, 'required', S('i16'))], has_unknown=True)
    ps = [{'orders': 1}]
    # (thorough: L = M = 2 for the three-type history exceeded the path budget in a measured run)
    out = [{'p': h1, 'w': w, 't': t, 'params': [{'orders': 1, 'L': 1, 'M': 1}] if TIER == 'thorough' else ps, 'reach': ['end', 'ok', 'missing']}]
    # presence-set clearing: required id sets whose largest / smallest member sits on every kind of word position
    for n, ids in enumerate([[64], [0], [1, 128], [63, 64, 65], [127], [1024, 1], [65534], [2, 192, 193]]):
        wv = StructDef('HsRW%d' % n, [Field(i, 'optional', S('i8'), ptr=True, name='F%d' % i) for i in ids])
        tv = StructDef('HsRT%d' % n, [Field(i, 'required', S('i8'), name='F%d' % i) for i in ids])
        lw = StructDef('HsLW%d' % n, [Field(1, 'default', ('list', ('struct', wv, True)))])
        lt = StructDef('HsLT%d' % n, [Field(1, 'default', ('list', ('struct', tv, True)))])
        out.append({'p': tv, 'w': wv, 't': tv, 'params': ps, 'reach': ['end', 'ok', 'missing']})
        out.append({'w': lw, 't': lt, 'kinds': ['decmsg'], 'params': {'decmsg': [{'orders': 1, 'L': 2}]}, 'reach': ['end', 'ok', 'missing']})
    # caches keyed by Go type: a predecessor that uses the named int64 type as an enum, then types using it as plain i64
    en, pl = S('enum'), S('i64n')
    for n, (a, b) in enumerate(((en, pl), (pl, en))):
        hp = StructDef('HsEnP%d' % n, [Field(1, 'default', a), Field(2, 'default', ('list', a))])
        hw = StructDef('HsEnW%d' % n, [Field(1, 'default', b), Field(2, 'default', ('list', b)), Field(3, 'default', S('i8'))])
        ht = StructDef('HsEnT%d' % n, [Field(1, 'default', b), Field(2, 'default', ('list', b))])
        out.append({'p': hp, 'w': hw, 't': ht, 'params': ps, 'reach': ['end']})
    return out

def fam_twin():
    # same Go type, different Thrift meaning (set vs list) at depth 0, 1 and 2: the descriptor caches must keep them apart
    i64, i32, i8 = S('i64'), S('i32'), S('i8')
    defs = [
        ('TwA1', ('map', S('string'), ('list', ('set', i64)))), ('TwA2', ('map', S('string'), ('list', ('list', i64)))),
        ('TwA3', ('map', S('string'), ('set', ('list', i64)))),
        ('TwB1', ('list', ('map', i32, ('list', i32)))), ('TwB2', ('list', ('map', i32, ('set', i32)))), ('TwB3', ('set', ('map', i32, ('list', i32)))),
        ('TwC1', ('list', ('list', ('set', i8)))), ('TwC2', ('list', ('list', ('list', i8)))), ('TwC3', ('list', ('set', ('list', i8)))),
        ('TwC4', ('set', ('list', ('list', i8)))),
        ('TwD1', ('map', i32, ('map', i32, ('set', S('string'))))), ('TwD2', ('map', i32, ('map', i32, ('list', S('string'))))),
    ]
    # the same named int64 Go type declared as an enum in one struct and as a plain i64 in another (annotated or not)
    en, pl = S('enum'), S('i64n')
    defs += [('TwE1', en), ('TwE2', pl), ('TwE3', ('list', en)), ('TwE4', ('list', pl)), ('TwE5', ('map', en, pl)), ('TwE6', ('map', pl, en)),
             ('TwE7', ('map', S('string'), ('set', pl)))]
    sm = {'codec': [{'S': 1, 'L': 1, 'M': 1, 'D': 1}]}
    out = [{'sd': StructDef(n, [Field(1, 'default', t)]), 'kinds': ['codec'], 'params': sm} for n, t in defs]
    out.append({'sd': StructDef('TwE8', [Field(1, 'default', pl, spelling={'omit_scalar_annot': True}), Field(2, 'optional', en)]), 'kinds': ['codec'], 'params': sm})
    return out

def fam_mutmsg(full=False):
    i64, i32, i8, st = S('i64'), S('i32'), S('i8'), S('string')
    types = [
        StructDef('MuA', [Field(1, 'default', ('map', st, i64)), Field(2, 'default', ('map', st, S('bool')))]),
        StructDef('MuB', [Field(1, 'default', ('map', i32, st)), Field(2, 'default', ('map', st, ('struct', LEAF, True)))]),
        StructDef('MuC', [Field(1, 'default', ('list', st)), Field(2, 'default', ('list', ('struct', LEAF, False))), Field(3, 'default', ('set', i64))]),
        StructDef('MuD', [Field(1, 'required', i32), Field(2, 'optional', st, ptr=True), Field(3, 'default', S('binary')), Field(4, 'default', S('double')),
                          Field(5, 'default', ('struct', LEAF, True))], has_unknown=True),
        StructDef('MuE', [Field(1, 'default', ('map', ('struct', LEAF, True), ('list', i32))), Field(2, 'default', ('list', ('map', i8, i8)))]),
        StructDef('MuF', [Field(1, 'default', st, nocopy=True), Field(2, 'default', S('binary'), nocopy=True), Field(3, 'default', ('map', S('enum'), S('i16')))]),
        StructDef('MuG', [Field(1, 'default', ('list', i8)), Field(2, 'default', ('set', S('bool')))]),
    ]
    out = []
    def add(w, t, muts):
        for mu in muts:
            out.append({'w': w, 't': t, 'kinds': ['mutmsg'], 'params': {'mutmsg': [{'mut': mu}]}, 'reach': ['end', ['cut', 'byte', 'word'][mu]]})
    unk = StructDef('MuSkip', [Field(900, 'default', i8)], has_unknown=True)
    for k, sd in enumerate(types):
        # (thorough: byte/word corruption of MuC and MuD did not finish within the time limit on a loaded machine)
        add(sd, sd, [0, 1, 2] if ((full and sd.name not in ('MuC', 'MuD')) or k == 0) else ([0, 2] if sd.name == 'MuG' else [0]))
    # a reader that does not know the writer's fields: everything goes through the unknown-field skipper
    for k, sd in enumerate(types[:5]):
        # (thorough: the byte/word corruption variants of MuC and MuD through the skipper did not finish within 3000 s in
        # a measured run and are left at truncation only: registered bounds are bounds that ran clean)
        add(sd, unk, [0, 1, 2] if (full and sd.name in ('MuB', 'MuE')) else [0])
    return out

def mk_dprec():
    rec = StructDef('DpRec', [Field(1, 'default', S('i32'), name='V')])
    rec.fields.append(Field(2, 'optional', ('struct', rec, True), name='Next'))
    rec.decl_fields = rec.fields
    rec.fields.append(Field(3, 'default', ('list', ('struct', rec, False)), name='Kids'))
    rec.fields.append(Field(4, 'default', ('map', S('i32'), ('struct', rec, False)), name='ByVal'))
    rec.fields.append(Field(5, 'default', ('map', ('struct', rec, True), S('i32')), name='ByKey'))
    return rec

# LGALL: one type with every container / element class, for the C17 harness (legacy controls must not change any result)
LGALL = StructDef('LgAll', [Field(1, 'default', ('list', S('enum'))), Field(2, 'default', ('map', S('enum'), S('i16'))), Field(3, 'default', ('map', S('string'), S('enum'))),
                            Field(4, 'default', ('set', S('double'))), Field(5, 'default', ('list', ('struct', LEAF, False))), Field(6, 'optional', S('i64'), ptr=True),
                            Field(7, 'default', S('binary')), Field(8, 'default', ('map', S('i32'), ('struct', LEAF, True)))])
DPREC = mk_dprec()
DPSKIP = StructDef('DpSkip', [Field(1, 'default', S('i32'), name='V')], has_unknown=True)

def fam_spelling():
    # C12: one schema, every equivalent spelling of its tags; plus decoy fields that must be ignored
    def fields(sp):
        return [Field(1, 'default', S('i8'), spelling=sp), Field(2, 'required', S('string'), spelling=sp), Field(3, 'optional', ('list', S('i32')), spelling=sp),
                Field(4, 'default', ('map', S('string'), ('struct', LEAF, True)), spelling=sp), Field(5, 'optional', ('struct', LEAF, True), spelling=sp),
                Field(6, 'default', ('set', S('enum')), spelling=sp), Field(7, 'optional', S('binary'), spelling=sp), Field(8, 'default', S('double'), spelling=sp),
                Field(9, 'default', S('i64'), spelling=sp), Field(300, 'default', ('map', S('i8'), ('list', ('set', S('i16')))), spelling=sp)]
    variants = {
        'SpFrugal': {}, 'SpThrift': {'thrift': True}, 'SpBoth': {'both': True}, 'SpOmit': {'omit_scalar_annot': True}, 'SpByte': {'byte': True},
        'SpQual': {'pkgqual': True}, 'SpSpaces': {'spaces': True}, 'SpThriftMin': {'thrift': True, 'omit_scalar_annot': True, 'omit_default_req': True},
        'SpThriftSpaces': {'thrift': True, 'spaces': True, 'byte': True},
        'SpPadId': {'padid': True},
    }
    sm = {'codec': [{'S': 2, 'L': 2, 'M': 2, 'D': 1, 'shape': 2}, {'S': 1, 'L': 1, 'M': 1, 'D': 1, 'shape': 0}, {'S': 1, 'L': 1, 'M': 1, 'D': 1, 'shape': 1}]}
    out = [{'sd': StructDef(n, fields(sp)), 'kinds': ['codec'], 'params': sm} for n, sp in variants.items()]
    decoys = ['Untagged int32', 'NoTag string `json:"x"`', 'hidden int64 `frugal:"11,default,i64"`', 'Leaf `frugal:"12,default,Leaf"`',
              'OtherTag []int32 `thrift2:"13,default"`']
    out.append({'sd': StructDef('SpDecoy', fields({}), extra_go_fields=decoys), 'kinds': ['codec'], 'params': sm})
    # declaration order different from id order
    fs = fields({})
    sd = StructDef('SpOrder', fs)
    sd.decl_fields = list(reversed(sd.fields))
    out.append({'sd': sd, 'kinds': ['codec'], 'params': sm})
    return out

def fam_mix(n_types=12, seed=20260923):
    """Pseudo-random (fixed seed) struct types that combine the features the other families isolate: every field kind x
    requiredness x pointer form x declared default x nocopy x holder x nesting, so that cross-feature interactions are
    instantiated. Each type runs through the codec core and, as a writer, against an evolved reader of itself."""
    import random
    rng = random.Random(seed)
    scal = ['bool', 'i8', 'i16', 'i32', 'i64', 'double', 'enum', 'string', 'binary']
    keyk = ['bool', 'i8', 'i16', 'i32', 'i64', 'double', 'enum', 'string']
    inner = [LEAF, LEAFD]

    def rtype(depth, pool):
        r = rng.random()
        if depth >= 2 or r < 0.45:
            return S(rng.choice(scal))
        if r < 0.60 and pool:
            return ('struct', rng.choice(pool), rng.random() < 0.6)
        if r < 0.80:
            return (rng.choice(['list', 'set']), rtype(depth + 1, pool))
        k = S(rng.choice(keyk)) if (rng.random() < 0.9 or not pool) else ('struct', rng.choice(pool), True)
        return ('map', k, rtype(depth + 1, pool))

    def rfield(fid, pool, allow_required, want_defaults):
        t = rtype(0, pool)
        k = t[0]
        req = rng.choice(['default', 'default', 'optional', 'optional', 'required'] if allow_required else ['default', 'optional', 'optional'])
        kw = {}
        if k in scal:
            if req == 'optional' and rng.random() < 0.5:
                kw['ptr'] = True
            if k in ('string', 'binary') and rng.random() < 0.3 and not (k == 'binary' and kw.get('ptr')):
                kw['nocopy'] = True
            if want_defaults and not kw.get('ptr') and not kw.get('nocopy') and rng.random() < 0.6:
                kw['default'] = DEFAULT_LIT[k]
        if k == 'struct' and req == 'required':
            req = 'default'
        return Field(fid, req, t, **kw)

    def rstruct(name, pool, nf, allow_required):
        ids = rng.sample([1, 2, 3, 4, 5, 6, 7, 8, 9, 10, 11, 12, 63, 64, 65, 127, 128, 255, 256, 300, 1000, 32767], nf)
        want_defaults = rng.random() < 0.4
        fs = [rfield(i, pool, allow_required, want_defaults) for i in ids]
        rng.shuffle(fs)
        return StructDef(name, fs, has_init=want_defaults, has_unknown=rng.random() < 0.4)

    for k in range(4):
        inner.append(rstruct('MxI%d' % k, [LEAF, LEAFD], rng.randint(2, 3), False))
    out = []
    sm = {'codec': [{'S': 1, 'L': 1, 'M': 1, 'D': 1}]}
    for k in range(n_types):
        w = rstruct('Mx%d' % k, inner, rng.randint(3, 5), True)
        out.append({'sd': w, 'kinds': ['codec'], 'params': sm})
        # evolved reader: fields kept / dropped / retyped (another kind) / added, holder or not
        fs = []
        for f in w.fields:
            r = rng.random()
            if r < 0.6:
                fs.append(Field(f.id, f.req, f.typ, ptr=f.ptr, nocopy=f.nocopy, default=f.default))
            elif r < 0.8:
                nt = rtype(1, inner)
                if nt[0] in scal or nt[0] != 'struct':
                    fs.append(Field(f.id, 'default' if f.req == 'required' else f.req, nt))
        used = {f.id for f in w.fields}
        for i in rng.sample([x for x in (13, 14, 15, 66, 129, 301) if x not in used], rng.randint(0, 2)):
            fs.append(rfield(i, inner, True, False))
        t = StructDef('MxT%d' % k, fs, has_init=any(f.default is not None for f in fs), has_unknown=rng.random() < 0.5)
        pp = pair(w, t, 2, hop=t.has_unknown, reach=['end'])
        pp['params'] = {'decmsg': [{'orders': 2, 'plain': 1}]}
        out.append(pp)
    return out

FAMILIES = {'mix': fam_mix, 'mix_full': lambda: fam_mix(30), 'spelling': fam_spelling, 'mutmsg': fam_mutmsg, 'mutmsg_full': lambda: fam_mutmsg(True), 'twin': fam_twin, 'hist': fam_hist, 'threshold': fam_threshold, 'threshold_full': lambda: fam_threshold(True), 'dec2': fam_dec2, 'default': fam_default, 'nocopy': fam_nocopy, 'unknown': fam_unknown, 'ids': fam_ids, 'nest': fam_nest, 'evolve': fam_evolve, 'evolve_full': lambda: fam_evolve(6), 'required': fam_required, 'bytes8': lambda: fam_bytes(8), 'bytes12': lambda: fam_bytes(12), 'scalar': fam_scalar, 'list': fam_list, 'map': fam_map}
