"""The generated type corpus (program dimension), by family."""
from schema import *

S = lambda k: (k,)

def leaf(name='Leaf', init=False):
    fs = [Field(1, 'optional', S('i32'), name='A', ptr=True), Field(2, 'default', S('string'), name='B')]
    if init:
        fs = [Field(1, 'optional', S('i32'), name='A', ptr=True), Field(2, 'optional', S('string'), name='B', default='"dflt"'),
              Field(3, 'default', S('i64'), name='C', default='7')]
    return StructDef(name, fs)

LEAF = leaf('Leaf')
LEAFD = leaf('LeafD', init=True)

DEFAULT_LIT = {'bool': 'true', 'i8': '3', 'i16': '-4', 'i32': '5', 'i64': '-6', 'double': '7.5', 'enum': '10',
               'string': '"8"', 'binary': '[]byte("9")'}

def fam_scalar():
    out = []
    for k in SCALARS:
        fs = [Field(1, 'default', S(k)), Field(2, 'required', S(k))]
        if k == 'binary':
            fs.append(Field(3, 'optional', S(k)))
        else:
            fs.append(Field(3, 'optional', S(k), ptr=True))
            fs.append(Field(4, 'optional', S(k)))
        out.append(StructDef('ScA_' + k, fs))
        fd = [Field(1, 'default', S(k), default=DEFAULT_LIT[k]), Field(2, 'optional', S(k), default=DEFAULT_LIT[k]),
              Field(3, 'optional', S(k)), Field(4, 'required', S(k))]
        out.append(StructDef('ScD_' + k, fd, has_init=True))
    return out

ELEMS = [S(k) for k in SCALARS] + [('struct', LEAF, True), ('struct', LEAF, False), ('list', S('i32')),
                                    ('set', S('string')), ('map', S('string'), S('i64'))]
ELEM_NAMES = SCALARS + ['pstruct', 'vstruct', 'list_i32', 'set_string', 'map_string_i64']

def fam_list():
    out = []
    for e, n in zip(ELEMS, ELEM_NAMES):
        out.append(StructDef('Li_' + n, [Field(1, 'default', ('list', e))]))
        out.append(StructDef('Se_' + n, [Field(2, 'optional', ('set', e))]))
    return out

KEYS = [S(k) for k in ['bool', 'i8', 'i16', 'i32', 'i64', 'double', 'enum', 'string']] + [('struct', LEAF, True)]
KEY_NAMES = ['bool', 'i8', 'i16', 'i32', 'i64', 'double', 'enum', 'string', 'pstruct']

def fam_map():
    out = []
    for k, kn in zip(KEYS, KEY_NAMES):
        for e, n in zip(ELEMS, ELEM_NAMES):
            out.append(StructDef('Mp_%s_%s' % (kn, n), [Field(1, 'default', ('map', k, e))]))
    return out

def fam_bytes(nmax=8):
    ns = [{'N': n} for n in range(0, nmax + 1)]
    S1 = StructDef('By_scalars', [Field(1, 'default', S('i32')), Field(2, 'required', S('bool')), Field(3, 'optional', S('i64'), ptr=True),
                                  Field(4, 'default', S('string')), Field(5, 'optional', S('binary'))])
    S2 = StructDef('By_list', [Field(1, 'default', ('list', S('i16'))), Field(2, 'optional', ('set', S('string')))])
    S3 = StructDef('By_map', [Field(1, 'default', ('map', S('i8'), S('string'))), Field(2, 'default', ('map', S('string'), S('i32')))])
    S4 = StructDef('By_nest', [Field(1, 'default', ('struct', LEAF, True)), Field(2, 'default', ('list', ('struct', LEAF, False))),
                               Field(3, 'optional', ('struct', LEAFD, True))])
    S5 = StructDef('By_unk', [Field(1, 'default', S('i8')), Field(300, 'required', S('i16'))], has_unknown=True)
    S6 = StructDef('By_enum', [Field(1, 'default', S('enum')), Field(2, 'default', S('double')), Field(3, 'default', ('map', S('enum'), S('double')))])
    return [{'sd': s, 'kinds': ['bytes'], 'params': {'bytes': ns}} for s in (S1, S2, S3, S4, S5, S6)]

FAMILIES = {'bytes8': lambda: fam_bytes(8), 'bytes12': lambda: fam_bytes(12), 'scalar': fam_scalar, 'list': fam_list, 'map': fam_map}
