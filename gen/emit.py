"""Go emitter: types with tags, InitDefault, schema literals, fill/toRef helpers, harness entries."""
from schema import *

SCALAR_FILL = {
    'bool': 'vrt.Bool(%s)',
    'i8': 'int8(vrt.U8(%s))',
    'i16': 'int16(vrt.U16(%s))',
    'i32': 'int32(vrt.U32(%s))',
    'i64': 'int64(vrt.U64(%s))',
    'double': 'math.Float64frombits(vrt.U64(%s))',
    'enum': 'VEnum(int64(int32(vrt.U32(%s))))',
    'i64n': 'VEnum(int64(vrt.U64(%s)))',
}
SCALAR_REF = {
    'bool': 'rBool(%s)',
    'i8': 'rI(int64(%s))',
    'i16': 'rI(int64(%s))',
    'i32': 'rI(int64(%s))',
    'i64': 'rI(int64(%s))',
    'double': 'rU(math.Float64bits(%s))',
    'enum': 'rI(int64(%s))',
    'i64n': 'rI(int64(%s))',
    'string': 'rStr(%s)',
    'binary': 'rBin(%s)',
}


def has_ptr(t):
    k = t[0]
    if k in ('string', 'binary', 'list', 'set', 'map'):
        return True
    if k == 'struct':
        return t[2] or any(f.is_ptr() or has_ptr(f.typ) for f in t[1].fields) or t[1].has_unknown
    return False


class Emitter:
    def __init__(self):
        self.helpers = {}     # go type string + tag -> helper suffix
        self.out = []
        self.structs = {}
        self.rtypes = {}
        self.n = 0
        self.types, self.funcs, self.decl, self.inits = [], [], [], []

    # ---- naming of type expressions ----
    def tkey(self, t):
        k = t[0]
        if k in ('list', 'set'):
            return '%s<%s>' % (k, self.tkey(t[1]))
        if k == 'map':
            return 'map<%s:%s>' % (self.tkey(t[1]), self.tkey(t[2]))
        if k == 'struct':
            return ('*' if t[2] else '') + t[1].name
        return k

    def hname(self, t):
        key = self.tkey(t)
        if key not in self.helpers:
            self.n += 1
            self.helpers[key] = 'x%d' % self.n
            self.emit_helpers(t, self.helpers[key])
        return self.helpers[key]

    def rtype_var(self, t):
        key = self.tkey(t)
        if key in self.rtypes:
            return self.rtypes[key]
        k = t[0]
        name = 'rt_%d' % (len(self.rtypes) + 1)
        self.rtypes[key] = name
        if k in ('list', 'set'):
            e = self.rtype_var(t[1])
            self.decl.append('var %s = &RType{Kind: %s}' % (name, KIND[k]))
            self.inits.append('%s.Elem = %s' % (name, e))
        elif k == 'map':
            kk = self.rtype_var(t[1])
            vv = self.rtype_var(t[2])
            self.decl.append('var %s = &RType{Kind: KMap}' % name)
            self.inits.append('%s.Key = %s; %s.Elem = %s' % (name, kk, name, vv))
        elif k == 'struct':
            self.decl.append('var %s = &RType{Kind: KStruct}' % name)
            self.inits.append('%s.Struct = st_%s' % (name, t[1].name))
        else:
            self.decl.append('var %s = &RType{Kind: %s}' % (name, KIND[k]))
        return name

    # ---- helpers per type expression: fill_<h>(p *T, name string, depth int), ref_<h>(x T) *RVal ----
    def emit_helpers(self, t, h):
        k = t[0]
        gt = go_type(t)
        o = self.funcs
        if k in SCALAR_FILL:
            o.append('func fill_%s(p *%s, name string, depth int) { *p = %s }' % (h, gt, SCALAR_FILL[k] % 'name'))
            o.append('func ref_%s(x %s) *RVal { return %s }' % (h, gt, SCALAR_REF[k] % 'x'))
            o.append('func walk_%s(x %s, w *walker, name string, nocopy bool) {}' % (h, gt))
        elif k == 'string':
            o.append('func fill_%s(p *string, name string, depth int) { *p = vrt.String(name, strLen(name)) }' % h)
            o.append('func ref_%s(x string) *RVal { return rStr(x) }' % h)
            o.append('func walk_%s(x string, w *walker, name string, nocopy bool) { w.str(x, name, nocopy) }' % h)
        elif k == 'binary':
            o.append('''func fill_%s(p *[]byte, name string, depth int) {
	c := binLen(name)
	if c == 0 {
		*p = nil
		return
	}
	*p = userBytes(name, c-1)
}''' % h)
            o.append('func ref_%s(x []byte) *RVal { return rBin(x) }' % h)
            o.append('func walk_%s(x []byte, w *walker, name string, nocopy bool) { w.bin(x, name, nocopy) }' % h)
        elif k in ('list', 'set'):
            eh = self.hname(t[1])
            o.append('''func fill_%s(p *%s, name string, depth int) {
	c := listLen(name)
	if c == 0 {
		*p = nil
		return
	}
	s := make(%s, c-1)
	for i := range s {
		fill_%s(&s[i], name+"[]", depth)
	}
	*p = s
}''' % (h, gt, gt, eh))
            o.append('''func ref_%s(x %s) *RVal {
	r := &RVal{Nil: x == nil}
	for i := range x {
		r.Elems = append(r.Elems, ref_%s(x[i]))
	}
	return r
}''' % (h, gt, eh))
            o.append('''func walk_%s(x %s, w *walker, name string, nocopy bool) {
	if x == nil {
		return
	}
	var e %s
	w.region(unsafe.Pointer(unsafe.SliceData(x)), cap(x)*int(unsafe.Sizeof(e)), int(unsafe.Alignof(e)), int(unsafe.Sizeof(e)), %s, name, len(x) == 0)
	for i := range x {
		walk_%s(x[i], w, name+"[]", false)
	}
}''' % (h, gt, go_type(t[1]), 'true' if has_ptr(t[1]) else 'false', eh))
        elif k == 'map':
            kh = self.hname(t[1])
            vh = self.hname(t[2])
            kt, vt = go_type(t[1]), go_type(t[2])
            extra = ''
            if t[1][0] == 'double':
                extra = '\n\t\tvrt.Assume(k == k) // NaN keys can not be looked up; outside the claim'
            kk = t[1][0]
            if kk in ('i8', 'i16', 'i32', 'i64', 'enum', 'i64n'):
                extra += '\n\t\tif forceM >= 0 {\n\t\t\tk = %s(i) // large maps: distinct concrete keys, symbolic values\n\t\t}' % kt
            elif kk == 'string':
                extra += '\n\t\tif forceM >= 0 {\n\t\t\tk = idxKey(i)\n\t\t}'
            o.append('''func fill_%s(p *%s, name string, depth int) {
	c := mapLen(name)
	if c == 0 {
		*p = nil
		return
	}
	mm := make(%s, c-1)
	for i := 0; i < c-1; i++ {
		var k %s
		fill_%s(&k, name+"{k}", depth)%s
		var x %s
		fill_%s(&x, name+"{v}", depth)
		mm[k] = x
	}
	vrt.Assume(len(mm) == c-1)
	*p = mm
}''' % (h, gt, gt, kt, kh, extra, vt, vh))
            o.append('''func ref_%s(x %s) *RVal {
	r := &RVal{Nil: x == nil}
	for k, v := range x {
		r.Keys = append(r.Keys, ref_%s(k))
		r.Elems = append(r.Elems, ref_%s(v))
	}
	return r
}''' % (h, gt, kh, vh))
            o.append('''func walk_%s(x %s, w *walker, name string, nocopy bool) {
	for k, v := range x {
		walk_%s(k, w, name+"{k}", false)
		walk_%s(v, w, name+"{v}", false)
	}
}''' % (h, gt, kh, vh))
        elif k == 'struct':
            sd = t[1]
            self.add_struct(sd)
            if t[2]:
                o.append('''func fill_%s(p **%s, name string, depth int) {
	if depth >= boundD || pick(name+"?", 2) == 0 {
		*p = nil
		return
	}
	*p = new(%s)
	fillS_%s(*p, name, depth+1)
}''' % (h, sd.name, sd.name, sd.name))
                o.append('''func ref_%s(x *%s) *RVal {
	if x == nil {
		return &RVal{Nil: true}
	}
	return refS_%s(x)
}''' % (h, sd.name, sd.name))
                o.append('''func walk_%s(x *%s, w *walker, name string, nocopy bool) {
	if x == nil {
		return
	}
	w.region(unsafe.Pointer(x), int(unsafe.Sizeof(*x)), int(unsafe.Alignof(*x)), int(unsafe.Sizeof(*x)), %s, name, false)
	walkS_%s(x, w, name)
}''' % (h, sd.name, 'true' if has_ptr(('struct', sd, False)) else 'false', sd.name))
            else:
                o.append('func fill_%s(p *%s, name string, depth int) { fillS_%s(p, name, depth+1) }' % (h, sd.name, sd.name))
                o.append('func ref_%s(x %s) *RVal { return refS_%s(&x) }' % (h, sd.name, sd.name))
                o.append('func walk_%s(x %s, w *walker, name string, nocopy bool) { walkS_%s(&x, w, name) }' % (h, sd.name, sd.name))

    # ---- struct ----
    def add_struct(self, sd):
        if sd.name in self.structs:
            return
        self.structs[sd.name] = sd
        o = self.types
        o.append('type %s struct {' % sd.name)
        for line in sd.extra_go_fields:
            o.append('\t' + line)
        for f in sd.decl_fields:
            gt = go_type(f.typ)
            if f.ptr:
                gt = '*' + gt
            o.append('\t%s %s `%s`' % (f.name, gt, emit_tag(f)))
        if sd.has_unknown:
            o.append('\t_unknownFields []byte')
        o.append('}')
        if sd.has_init:
            o.append('func (p *%s) InitDefault() {' % sd.name)
            for f in sd.decl_fields:
                if f.default is not None:
                    o.append('\tp.%s = %s' % (f.name, f.default))
            o.append('}')
        # schema
        self.decl.append('var st_%s = &RStruct{Name: "%s", HasInit: %s, HasUnknown: %s}' % (
            sd.name, sd.name, 'true' if sd.has_init else 'false', 'true' if sd.has_unknown else 'false'))
        fl = []
        for f in sd.fields:
            rt = self.rtype_var(f.typ)
            d = 'nil'
            assign = 'false'
            if sd.has_init and not f.is_ptr() and f.typ[0] in SCALAR_REF:
                lit = f.default
                if lit is None:
                    lit = {'bool': 'false', 'string': '""', 'binary': '[]byte(nil)'}.get(f.typ[0], '0')
                else:
                    assign = 'true'
                d = SCALAR_REF[f.typ[0]] % ('%s(%s)' % (go_type(f.typ), lit) if f.typ[0] not in ('string', 'binary', 'bool') else lit)
            fl.append('{ID: %d, Req: %s, T: %s, Ptr: %s, HasDef: %s, Def: %s, Assign: %s, NoCopy: %s, Name: "%s"}' % (
                f.id, REQ[f.req], rt, 'true' if f.is_ptr() else 'false', 'true' if sd.has_init else 'false', d, assign,
                'true' if f.nocopy else 'false', f.name))
        self.inits.append('st_%s.Fields = []RField{\n\t\t%s,\n\t}' % (sd.name, ',\n\t\t'.join(fl)) if fl else 'st_%s.Fields = []RField{}' % sd.name)
        # fillS / refS
        fo = self.funcs
        lines = ['func fillS_%s(p *%s, name string, depth int) {' % (sd.name, sd.name)]
        for f in sd.fields:
            h = self.hname(f.typ)
            if f.ptr:
                gt = go_type(f.typ)
                lines.append('\tif pick(name+".%s?", 2) == 1 {\n\t\tvar x %s\n\t\tfill_%s(&x, name+".%s", depth)\n\t\tp.%s = &x\n\t}' % (
                    f.name, gt, h, f.name, f.name))
            else:
                lines.append('\tfill_%s(&p.%s, name+".%s", depth)' % (h, f.name, f.name))
                if f.default is not None and f.typ[0] in ('string', 'binary'):
                    # (job parameter alias=1) the value may share storage with the declared default: a prefix of it
                    lines.append('\tif vrt.ParamOr("alias", 0) == 1 && pick(name+".%s.alias", 2) == 1 {\n\t\tvar d %s\n\t\td.InitDefault()\n\t\tp.%s = d.%s[:pick(name+".%s.alen", len(d.%s)+1)]\n\t}' % (
                        f.name, sd.name, f.name, f.name, f.name, f.name))
        if sd.has_unknown:
            lines.append('\tp._unknownFields = fillUnknown(name + "._unknown")')
        lines.append('}')
        fo.append('\n'.join(lines))
        lines = ['func refS_%s(p *%s) *RVal {' % (sd.name, sd.name), '\tr := &RVal{F: make([]*RVal, %d)}' % len(sd.fields)]
        for i, f in enumerate(sd.fields):
            h = self.hname(f.typ)
            if f.ptr:
                lines.append('\tif p.%s == nil {\n\t\tr.F[%d] = &RVal{Nil: true}\n\t} else {\n\t\tr.F[%d] = ref_%s(*p.%s)\n\t\tr.F[%d].Nil = false // a non-nil pointer is a present value, even when it points to a nil []byte\n\t}' % (f.name, i, i, h, f.name, i))
            else:
                lines.append('\tr.F[%d] = ref_%s(p.%s)' % (i, h, f.name))
        if sd.has_unknown:
            lines.append('\tr.Unknown = p._unknownFields')
        lines.append('\treturn r\n}')
        fo.append('\n'.join(lines))
        lines = ['func walkS_%s(p *%s, w *walker, name string) {' % (sd.name, sd.name)]
        for f in sd.fields:
            h = self.hname(f.typ)
            nc = 'true' if f.nocopy else 'false'
            if f.ptr:
                gt = go_type(f.typ)
                hp = 'true' if f.typ[0] in ('string', 'binary') else 'false'
                lines.append('\tif p.%s != nil {\n\t\tw.region(unsafe.Pointer(p.%s), int(unsafe.Sizeof(*p.%s)), int(unsafe.Alignof(*p.%s)), int(unsafe.Sizeof(*p.%s)), %s, name+".%s", false)\n\t\twalk_%s(*p.%s, w, name+".%s", %s)\n\t}' % (
                    f.name, f.name, f.name, f.name, f.name, hp, f.name, h, f.name, f.name, nc))
            else:
                lines.append('\twalk_%s(p.%s, w, name+".%s", %s)' % (h, f.name, f.name, nc))
        if sd.has_unknown:
            lines.append('\tw.bin(p._unknownFields, name+"._unknownFields", false)')
        lines.append('}')
        fo.append('\n'.join(lines))
        lines = ['func prefillS_%s(p *%s, name string) {' % (sd.name, sd.name)]
        for f in sd.fields:
            h = self.hname(f.typ)
            if f.typ[0] == 'struct' and not f.typ[2]:
                continue  # by-value struct fields keep their fresh state (left open by the properties)
            if f.ptr:
                gt = go_type(f.typ)
                lines.append('\tif pick(name+".%s?", 2) == 1 {\n\t\tvar x %s\n\t\tfill_%s(&x, name+".%s", 0)\n\t\tp.%s = &x\n\t}' % (
                    f.name, gt, h, f.name, f.name))
            else:
                lines.append('\tfill_%s(&p.%s, name+".%s", 0)' % (h, f.name, f.name))
        if sd.has_unknown:
            # a recycled destination: the holder still has the previous message's retained bytes (and spare capacity)
            lines.append('\tp._unknownFields = prefillUnknown(name + "._unknown")')
        lines.append('}')
        fo.append('\n'.join(lines))
        # typeOps
        newf = 'func() interface{} { p := new(%s); %sreturn p }' % (sd.name, 'p.InitDefault(); ' if sd.has_init else '')
        self.decl.append('''var ops_%s = &typeOps{
	St:      st_%s,
	New:     %s,
	NewZero: func() interface{} { return new(%s) },
	ToRef:   func(p interface{}) *RVal { return refS_%s(p.(*%s)) },
	Deref:   func(p interface{}) interface{} { return *(p.(*%s)) },
	Clone:   func(p interface{}) interface{} { c := *(p.(*%s)); return &c },
	Fill:    func(p interface{}, name string) { fillS_%s(p.(*%s), name, 0) },
	Prefill: func(p interface{}, name string) { prefillS_%s(p.(*%s), name) },
	Walk:    func(p interface{}, w *walker) { walkS_%s(p.(*%s), w, "w") },
}''' % (sd.name, sd.name, newf, sd.name, sd.name, sd.name, sd.name, sd.name, sd.name, sd.name, sd.name, sd.name, sd.name, sd.name))

    def emit_file(self, structs, bounds, entries):
        """structs: StructDefs to include (with everything reachable); entries: list of (funcname, body)"""
        for sd in structs:
            self.add_struct(sd)
        src = ['// Code generated by /verif/gen; DO NOT EDIT.', 'package frugal', '',
               'import (', '\t"math"', '\t"unsafe"', '', '\t"github.com/cloudwego/frugal/internal/vrt"', ')', '',
               'var _ = math.Float64bits', 'var _ = vrt.Note', 'var _ = unsafe.Pointer(nil)', '']
        src.append('var (\n\tboundS = %d\n\tboundL = %d\n\tboundM = %d\n\tboundD = %d\n)\n' % (
            bounds['S'], bounds['L'], bounds['M'], bounds['D']))
        src += self.types + [''] + self.decl + ['']
        src.append('func init() {\n\t' + '\n\t'.join(self.inits) + '\n}\n')
        src += self.funcs + ['']
        for name, body in entries:
            src.append('func %s() {\n%s\n}\n' % (name, body))
        return '\n'.join(src)
