#!/usr/bin/env python3
"""Generate overlay harness files and job lists.
usage: gen.py <outdir> [--bounds S,L,M,D] [--families a,b,c]
Writes <outdir>/overlay/zz_verif_gen_<family>.go and <outdir>/jobs_<family>.json
"""
import sys, os, json, argparse
sys.path.insert(0, os.path.dirname(os.path.abspath(__file__)))
from schema import *
from emit import Emitter
import corpus

PKG = 'github.com/cloudwego/frugal'

def main():
    ap = argparse.ArgumentParser()
    ap.add_argument('outdir')
    ap.add_argument('--bounds', default='2,2,2,2')
    ap.add_argument('--families', default=','.join(corpus.FAMILIES))
    a = ap.parse_args()
    b = [int(x) for x in a.bounds.split(',')]
    bounds = {'S': b[0], 'L': b[1], 'M': b[2], 'D': b[3]}
    ov = os.path.join(a.outdir, 'overlay')
    os.makedirs(ov, exist_ok=True)
    em = Emitter()
    em.types, em.funcs, em.decl, em.inits = [], [], [], []
    entries = []
    jobs = {}
    for fam in a.families.split(','):
        structs = corpus.FAMILIES[fam]()
        jobs[fam] = []
        for sd in structs:
            em.add_struct(sd)
            fn = 'VerifCodec_' + sd.name
            entries.append((fn, '\tcodecCore(ops_%s)' % sd.name))
            entries.append(('VerifSetup_' + sd.name, '\tEncodedSize(ops_%s.New())' % sd.name))
            jobs[fam].append({'id': 'codec/' + sd.name, 'entry': PKG + '.' + fn, 'setup': PKG + '.VerifSetup_' + sd.name,
                              'reach': ['end'], 'tags': ['codec', fam]})
    src = em.emit_file([], bounds, entries)
    with open(os.path.join(ov, 'zz_verif_gen.go'), 'w') as f:
        f.write(src)
    for fam, js in jobs.items():
        with open(os.path.join(a.outdir, 'jobs_%s.json' % fam), 'w') as f:
            json.dump({'jobs': js}, f, indent=1)
    print('generated', sum(len(j) for j in jobs.values()), 'jobs,', len(em.structs), 'structs')

if __name__ == '__main__':
    main()
