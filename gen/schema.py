"""Schema description language for the generated type corpus.

A type is a tuple:
  ('bool',) ('i8',) ('i16',) ('i32',) ('i64',) ('double',) ('enum',) ('string',) ('binary',)
  ('list', elem) ('set', elem) ('map', key, val)
  ('struct', StructDef, ptr)     ptr: Go representation is *S (True) or S (False)
The reference codec is derived from this description; the struct tags are
emitted from it by emit_tag (the inverse of the parser under test).
"""

SCALARS = ['bool', 'i8', 'i16', 'i32', 'i64', 'double', 'enum', 'string', 'binary']
# 'i64n': plain i64 on the wire whose Go type is the named int64 type VEnum (not part of SCALARS families)
GO_SCALAR = {'bool': 'bool', 'i8': 'int8', 'i16': 'int16', 'i32': 'int32', 'i64': 'int64',
             'double': 'float64', 'enum': 'VEnum', 'string': 'string', 'binary': '[]byte', 'i64n': 'VEnum'}
KIND = {'bool': 'KBool', 'i8': 'KI8', 'i16': 'KI16', 'i32': 'KI32', 'i64': 'KI64', 'double': 'KDouble',
        'enum': 'KEnum', 'i64n': 'KI64', 'string': 'KString', 'binary': 'KBinary', 'list': 'KList', 'set': 'KSet',
        'map': 'KMap', 'struct': 'KStruct'}
REQ = {'default': 'ReqDefault', 'required': 'ReqRequired', 'optional': 'ReqOptional'}


class Field:
    def __init__(self, fid, req, typ, name=None, ptr=False, nocopy=False, default=None, spelling=None):
        self.id = fid
        self.req = req          # 'default' | 'required' | 'optional'
        self.typ = typ
        self.ptr = ptr          # optional pointer scalar/string (struct pointer-ness lives in the type)
        self.nocopy = nocopy
        self.default = default  # Go literal for declared default (scalars/string/binary)
        self.name = name or ('F%d' % fid)
        self.spelling = spelling or {}

    def is_ptr(self):
        return self.ptr or (self.typ[0] == 'struct' and self.typ[2])


class StructDef:
    def __init__(self, name, fields, has_init=False, has_unknown=False, extra_go_fields=None):
        self.name = name
        self.fields = sorted(fields, key=lambda f: f.id)   # schema order = ascending id
        self.decl_fields = fields                           # declaration order as given
        self.has_init = has_init or any(f.default is not None for f in fields)
        self.has_unknown = has_unknown
        self.extra_go_fields = extra_go_fields or []       # untagged / unexported / embedded decoys


def go_type(t):
    k = t[0]
    if k in GO_SCALAR:
        return GO_SCALAR[k]
    if k in ('list', 'set'):
        return '[]' + go_type(t[1])
    if k == 'map':
        return 'map[%s]%s' % (go_type(t[1]), go_type(t[2]))
    if k == 'struct':
        return ('*' if t[2] else '') + t[1].name
    raise ValueError(t)


def annot(t, sp=None):
    """type annotation in the tag language"""
    sp = sp or {}
    k = t[0]
    if k == 'enum':
        return 'VEnum'
    if k == 'i64n':
        return 'i64'
    if k == 'i8' and sp.get('byte'):
        return 'byte'
    if k in GO_SCALAR:
        return k
    if k in ('list', 'set'):
        return '%s<%s>' % (k, annot(t[1], sp))
    if k == 'map':
        return 'map<%s:%s>' % (annot(t[1], sp), annot(t[2], sp))
    if k == 'struct':
        return ('frugal.' if sp.get('pkgqual') else '') + t[1].name
    raise ValueError(t)


def emit_tag(f):
    sp = f.spelling
    a = annot(f.typ, sp)
    if sp.get('omit_scalar_annot') and f.typ[0] in ('bool', 'i8', 'i16', 'i32', 'i64', 'i64n', 'double', 'string', 'binary'):
        a = ''
    if sp.get('spaces'):
        a = a.replace('<', ' < ').replace('>', ' >').replace(':', ' : ')
    parts = [('0' + str(f.id)) if sp.get('padid') else str(f.id), f.req]   # zero-padded decimal ids are decimal
    if sp.get('omit_default_req') and f.req == 'default' and not a and not f.nocopy:
        parts = [parts[0]]
    else:
        if a or f.nocopy:
            parts.append(a)
        if f.nocopy:
            parts.append('nocopy')
    if sp.get('spaces'):
        body = ' ,  '.join(' ' + p + ' ' for p in parts)
    else:
        body = ','.join(parts)
    if sp.get('thrift'):
        return 'thrift:"%s,%s"' % (f.name.lower(), body)
    if sp.get('both'):
        return 'frugal:"%s" thrift:"%s,%d,required,i64"' % (body, f.name.lower(), (f.id + 7) % 100)
    return 'frugal:"%s"' % body


def structs_of(t, acc):
    k = t[0]
    if k in ('list', 'set'):
        structs_of(t[1], acc)
    elif k == 'map':
        structs_of(t[1], acc)
        structs_of(t[2], acc)
    elif k == 'struct':
        collect(t[1], acc)


def collect(sd, acc):
    if sd.name in acc:
        return
    acc[sd.name] = sd
    for f in sd.fields:
        structs_of(f.typ, acc)
