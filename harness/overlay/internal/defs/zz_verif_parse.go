package defs

// C12(2) / C13: the type-annotation parser on texts with SYMBOLIC bytes.
// For a fixed Go type the set of annotations the tag language allows is finite (as token sequences), so the
// reference is: tokenise independently, then the parse must succeed exactly when the token sequence is one of the
// allowed ones. Two regions are left open and not asserted: a keyword position holding a proper substring of the
// keyword (frugal matches keywords with strings.Contains), see DESIGN.md; everything else must be rejected with
// an error - never a panic.

import (
	"reflect"
	"unicode"

	"github.com/cloudwego/frugal/internal/vrt"
)

type vLeaf struct {
	A int32 `frugal:"1,default,i32"`
}
type vEnum int64

type parseCase struct {
	name  string
	vt    reflect.Type
	valid [][]string // allowed token sequences; "ID" stands for any identifier, "" (empty sequence) = no annotation
	texts []string   // spellings used as mutation seeds
	// expected result shape for a valid parse: checked through String()
	want func(toks []string) string
}

var parseCases = []parseCase{
	{"int8", reflect.TypeOf(int8(0)), [][]string{{}, {"i8"}, {"byte"}}, []string{"i8", "byte", " i8 "}, func([]string) string { return "i8" }},
	{"int32", reflect.TypeOf(int32(0)), [][]string{{}, {"i32"}}, []string{"i32"}, func([]string) string { return "i32" }},
	{"string", reflect.TypeOf(""), [][]string{{}, {"string"}}, []string{"string"}, func([]string) string { return "string" }},
	{"binary", reflect.TypeOf([]byte(nil)), [][]string{{}, {"binary"}}, []string{"binary"}, func([]string) string { return "binary" }},
	{"[]int32", reflect.TypeOf([]int32(nil)), [][]string{{"list", "<", "i32", ">"}, {"set", "<", "i32", ">"}}, []string{"list<i32>", "set< i32 >"},
		func(t []string) string { return t[0] + "<i32>" }},
	{"map[string]int64", reflect.TypeOf(map[string]int64(nil)), [][]string{{}, {"map", "<", "string", ":", "i64", ">"}}, []string{"map<string:i64>"},
		func([]string) string { return "map<string:i64>" }},
	{"*vLeaf", reflect.TypeOf((*vLeaf)(nil)), [][]string{{}, {"vLeaf"}, {"ID", ".", "vLeaf"}}, []string{"vLeaf", "pk.vLeaf"}, func([]string) string { return "*vLeaf" }},
	{"vEnum", reflect.TypeOf(vEnum(0)), [][]string{{}, {"i64"}, {"vEnum"}, {"ID", ".", "vEnum"}}, []string{"vEnum", "i64", "x.vEnum"},
		func(t []string) string {
			if len(t) == 0 || (len(t) == 1 && t[0] == "i64") {
				return "i64"
			}
			return "enum"
		}},
	{"[][]string", reflect.TypeOf([][]string(nil)), [][]string{{"list", "<", "list", "<", "string", ">", ">"}, {"list", "<", "set", "<", "string", ">", ">"},
		{"set", "<", "list", "<", "string", ">", ">"}, {"set", "<", "set", "<", "string", ">", ">"}}, []string{"list<set<string>>"},
		func(t []string) string { return t[0] + "<" + t[2] + "<string>>" }},
}

func refIsIdent0(c byte) bool { return c == '_' || (c >= 'a' && c <= 'z') || (c >= 'A' && c <= 'Z') }
func refIsIdent(c byte) bool  { return refIsIdent0(c) || (c >= '0' && c <= '9') }

// refTokens: maximal identifiers, every other non-space character is a token of its own.
func refTokens(s string) []string {
	var out []string
	i := 0
	for i < len(s) {
		if unicode.IsSpace(rune(s[i])) {
			i++
			continue
		}
		j := i + 1
		if refIsIdent0(s[i]) {
			for j < len(s) && refIsIdent(s[j]) {
				j++
			}
		}
		out = append(out, s[i:j])
		i = j
	}
	return out
}

func seqMatches(toks, pat []string) bool {
	if len(toks) != len(pat) {
		return false
	}
	for i := range pat {
		if pat[i] == "ID" {
			if len(toks[i]) == 0 || !refIsIdent0(toks[i][0]) {
				return false
			}
			continue
		}
		if !vrt.StrEq(toks[i], pat[i]) {
			return false
		}
	}
	return true
}

// keywordSubstring: some token is a non-empty substring of a keyword-table entry without being a keyword itself
// (open region: frugal accepts such tokens in keyword position).
func keywordSubstring(toks []string) bool {
	kws := []string{"bool", "i8 byte", "double", "i16", "i32", "i64", "string", "binary", "struct", "map"}
	full := []string{"bool", "i8", "byte", "double", "i16", "i32", "i64", "string", "binary", "struct", "map"}
	for _, t := range toks {
		isFull := false
		for _, f := range full {
			if vrt.StrEq(t, f) {
				isFull = true
			}
		}
		if isFull {
			continue
		}
		for _, k := range kws {
			if len(t) > 0 && len(t) <= len(k) {
				for o := 0; o+len(t) <= len(k); o++ {
					if vrt.StrEq(t, k[o:o+len(t)]) {
						return true
					}
				}
			}
		}
	}
	return false
}

func VerifParseType() {
	c := parseCases[vrt.Param("type")]
	var text string
	switch vrt.Param("mode") {
	case 0: // every text of the given length
		text = vrt.String("text", vrt.Param("len"))
	case 1: // one byte of a valid spelling replaced by an arbitrary byte
		seed := c.texts[vrt.Choice("seed", len(c.texts))]
		pos := vrt.Choice("pos", len(seed))
		b := []byte(seed)
		b[pos] = vrt.U8("byte")
		text = string(b)
	case 2: // one byte deleted
		seed := c.texts[vrt.Choice("seed", len(c.texts))]
		pos := vrt.Choice("pos", len(seed))
		text = seed[:pos] + seed[pos+1:]
	case 3: // one arbitrary byte inserted
		seed := c.texts[vrt.Choice("seed", len(c.texts))]
		pos := vrt.Choice("pos", len(seed)+1)
		text = seed[:pos] + string([]byte{vrt.U8("byte")}) + seed[pos:]
	}
	var typ *Type
	var err error
	r := vrt.Catch(func() { typ, err = ParseType(c.vt, text) })
	vrt.Check(r == 0, "C13 the annotation parser never panics")
	if r != 0 {
		return
	}
	toks := refTokens(text)
	if len(toks) == 0 && len(text) > 0 {
		// whitespace-only text: the field resolver trims annotations before they reach the parser, so this
		// never comes from a struct tag; not asserted
		vrt.Reach("open")
		vrt.Reach("end")
		return
	}
	if keywordSubstring(toks) {
		// a token that is a proper substring of a keyword is taken for the keyword (strings.Contains): open region
		vrt.Reach("open")
		vrt.Reach("end")
		return
	}
	valid := false
	for _, p := range c.valid {
		if seqMatches(toks, p) {
			valid = true
		}
	}
	if valid {
		vrt.Check(err == nil, "C12 an annotation allowed by the tag language for this Go type is accepted")
		if err == nil {
			vrt.Check(vrt.StrEq(typ.String(), c.want(toks)), "C12 the parsed type is what the annotation says")
		}
		vrt.Reach("valid")
	} else {
		vrt.Check(err != nil, "C13 an annotation that contradicts the Go type or is syntactically broken is rejected")
		vrt.Reach("invalid")
	}
	vrt.Reach("end")
}
