package opts

import (
	"os"

	"github.com/cloudwego/frugal/internal/vrt"
)

// VerifParseEnv (C17): FRUGAL_MAX_INLINE_* holding a valid value is parsed to that value and never panics.
// The environment string is symbolic (length = job parameter "len"): every decimal string of that length.
func VerifParseEnv() {
	env := os.Getenv("FRUGAL_MAX_INLINE_DEPTH")
	n := len(env)
	valid := n > 0
	val := 0
	for i := 0; i < n; i++ {
		c := env[i]
		valid = vrt.And(valid, vrt.And(c >= '0', c <= '9'))
		val = val*10 + int(c-'0')
	}
	if n > 1 {
		valid = vrt.And(valid, env[0] != '0') // leading zeros select another base in ParseUint(s, 0, ..): not a plain decimal
	}
	var got int
	r := vrt.Catch(func() { got = parseOrDefault("FRUGAL_MAX_INLINE_DEPTH", _DefaultMaxInlineDepth, 1) })
	if vrt.And(valid, val > 1) {
		vrt.Check(r == 0, "C17 a valid FRUGAL_MAX_INLINE_DEPTH never makes initialisation panic")
		vrt.Check(got == val, "C17 a valid setting is parsed to its value")
		vrt.Reach("valid")
	} else {
		vrt.Reach("other")
	}
	if n == 0 {
		vrt.Check(r == 0 && got == _DefaultMaxInlineDepth, "C17 unset variable means the default")
	}
	vrt.Reach("end")
}
