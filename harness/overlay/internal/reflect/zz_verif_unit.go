package reflect

import (
	"reflect"
	"unsafe"

	"github.com/cloudwego/frugal/internal/vrt"
)

// ---- C09(1): presence-set lemma. The word index is case-split (all 1024 words x 4 positions of the second
// index relative to it), bit positions and the contents of the words involved are solver variables:
// set(i) makes test(i) true and leaves every other bit alone, unset(i) makes it false and leaves the rest alone,
// no access leaves the array (the engine's bounds monitor).
func VerifBitsetLemma() {
	var s bitset
	x := vrt.Choice("word(i)", 1024)
	var y int
	switch vrt.Choice("word(j)", 4) {
	case 0:
		y = x
	case 1:
		y = (x + 1) % 1024
	case 2:
		y = 0
	default:
		y = 1023
	}
	vrt.HavocBytes("bits.x", unsafe.Pointer(&s.data[x]), 8)
	vrt.HavocBytes("bits.y", unsafe.Pointer(&s.data[y]), 8)
	i := uint16(x)<<6 | uint16(vrt.U8("i.lo")&63)
	j := uint16(y)<<6 | uint16(vrt.U8("j.lo")&63)
	oldj := s.test(j)
	if vrt.Choice("op", 2) == 0 {
		s.set(i)
		vrt.Check(s.test(i), "C09 set(i) then test(i)")
		vrt.Check(vrt.Implies(j != i, s.test(j) == oldj), "C09 set(i) leaves every other bit alone")
		vrt.Reach("set")
	} else {
		s.unset(i)
		vrt.Check(!s.test(i), "C09 unset(i) then !test(i)")
		vrt.Check(vrt.Implies(j != i, s.test(j) == oldj), "C09 unset(i) leaves every other bit alone")
		vrt.Reach("unset")
	}
}

// ---- C06(1): bump allocator, one inductive step from an arbitrary valid state ----
//
// Invariant I(s): s.b is a live noscan block of s.n bytes, 0 <= s.p <= s.n, and every
// allocation handed out from this block lies in [s.b, s.b+s.p).
// Step: for arbitrary n >= 0 and align in {1,2,4,8}, Malloc returns ret with
//
//	ret aligned; [ret, ret+n) inside the block now current; ret >= old frontier if the block was kept
//	(hence disjoint from everything handed out before); I re-established.
func VerifSpanLemma() {
	var s span
	s.init()
	blk := unsafe.Pointer(s.b)
	vrt.Check(vrt.BlockSize(blk) >= uint64(s.n), "init: block holds n bytes")
	p := int(vrt.U16("p"))
	vrt.Assume(p <= s.n)
	s.p = p
	n := int(vrt.U32("n") & 0x3fffff)
	align := 1 << uint(vrt.Choice("align", 4))
	old := s
	ret := s.Malloc(n, align)
	a := uintptr(ret)
	vrt.Check(a%uintptr(align) == 0, "C06 aligned for its element type")
	base := uintptr(s.b)
	vrt.Check(s.p >= 0 && s.p <= s.n, "C06 allocator invariant 0 <= p <= n re-established")
	vrt.Check(a >= base && a+uintptr(n) <= base+uintptr(s.p), "C06 allocation lies below the new frontier of the current block")
	vrt.Check(vrt.BlockSize(s.b) >= uint64(s.n), "C06 current block really holds n bytes")
	vrt.Check(vrt.BlockNoScan(s.b), "C06 bump blocks are pointer-free allocations")
	if s.b == old.b {
		vrt.Check(a >= base+uintptr(old.p), "C06 allocation starts at or after the old frontier (disjoint from earlier allocations)")
		vrt.Reach("kept")
	} else {
		vrt.Check(s.p <= s.n && a >= base, "C06 fresh block")
		vrt.Reach("fresh")
	}
}

// tDecoder.Malloc dispatch: large or pointer-bearing requests go to the typed, zeroing allocator.
func VerifDecoderMalloc() {
	d := decoderPool.Get().(*tDecoder)
	n := int(vrt.U16("n"))
	vrt.Assume(n > 0 && n <= 4096)
	typed := vrt.Choice("typed", 2) == 1
	var abi uintptr
	if typed {
		abi = rtTypePtr(reflect.TypeOf(""))
		n = n &^ 15
		vrt.Assume(n > 0)
	}
	p := d.Malloc(n, 8, abi)
	vrt.Check(vrt.BlockSize(p)-vrt.BlockOff(p) >= uint64(n), "C06 extent lies inside its allocation")
	if typed {
		vrt.Check(!vrt.BlockNoScan(p), "C06 pointer-bearing memory is a typed allocation")
		vrt.Reach("typed")
	} else if n > defaultDecoderMemSize/8 {
		vrt.Check(vrt.BlockOff(p) == 0, "large request gets its own allocation")
		vrt.Reach("large")
	} else {
		vrt.Reach("small")
	}
	decoderPool.Put(d)
}

// VerifHavocPools (C07): puts pooled scratch objects with ARBITRARY (symbolic) contents into the pools,
// constrained only by the objects' representation invariants, so that one call covers every call history:
//
//	bitset: all 1024 words arbitrary;
//	unknown-field index: arbitrary sz, 0..2 stale entries with arbitrary off/sz;
//	decoder: bump allocator at an arbitrary frontier 0 <= p <= n of its (garbage-filled) block.
func VerifHavocPools() {
	bs := bitsetPool.Get().(*bitset)
	vrt.HavocBytes("pool.bitset", unsafe.Pointer(bs), int(unsafe.Sizeof(*bs)))
	bitsetPool.Put(bs)

	ufs := unknownFieldsPool.Get().(*unknownFields)
	ufs.sz = int(vrt.U64("pool.ufs.sz"))
	k := vrt.Choice("pool.ufs.n", 3)
	ufs.offs = ufs.offs[:0]
	for i := 0; i < k; i++ {
		ufs.offs = append(ufs.offs, unknownFieldIdx{off: int(vrt.U64("pool.ufs.off")), sz: int(vrt.U64("pool.ufs.sz"))})
	}
	unknownFieldsPool.Put(ufs)

	d := decoderPool.Get().(*tDecoder)
	// frontier classes: every residue mod 8 near the start, and positions at / next to the end of the block
	// (span.Malloc itself is covered for every p by the inductive lemma VerifSpanLemma)
	fr := []int{0, 1, 4, 7, 8, 2041, 2048}
	d.s.p = fr[vrt.Choice("pool.span.p", len(fr))]
	if d.s.p > d.s.n {
		d.s.p = d.s.n
	}
	decoderPool.Put(d)
}

// ---- C15(1): the depth budget. With a SYMBOLIC budget md the decoder is run on messages nested k levels:
// a zero budget is refused before any input is read, the recursion never goes deeper than md+1 decoder frames
// (so 1023 bounds the stack for any input), a budget that is too small yields the depth-limit error and a
// sufficient one success; the cost per nesting level is at most 2 units for structs and 3 for struct-in-container.
type vRec struct {
	V    int32   `frugal:"1,default,i32"`
	Next *vRec   `frugal:"2,optional,vRec"`
	Kids []*vRec `frugal:"3,default,list<vRec>"`
}

func VerifDepthBudget() {
	k := vrt.Param("k")
	via := vrt.Param("via")
	var pre, suf []byte
	wide := vrt.ParamOr("wide", 0) // sibling fields of variable size (empty Kids lists) on every level: they cost no depth
	for l := 0; l < k; l++ {
		for w := 0; w < wide; w++ {
			pre = append(pre, 15, 0, 3, 12, 0, 0, 0, 0)
		}
		if via == 0 {
			pre = append(pre, 12, 0, 2)
		} else {
			pre = append(pre, 15, 0, 3, 12, 0, 0, 0, 1)
		}
		suf = append(suf, 0)
	}
	msg := append(pre, 8, 0, 1, 0, 0, 0, vrt.U8("leaf"), 0)
	msg = append(msg, suf...)
	var w vRec
	rv := reflect.ValueOf(&w)
	sd, err := getOrcreateStructDesc(rv)
	vrt.Check(err == nil, "registration")
	md := int(vrt.U16("md"))
	vrt.Assume(md <= 40)
	d := decoderPool.Get().(*tDecoder)
	base := vrt.ResetMaxDepth()
	n, derr := d.Decode(msg, unsafe.Pointer(&w), sd, md)
	frames := vrt.MaxDepth() - base
	decoderPool.Put(d)
	cls := vrt.ErrClass(derr)
	// Decode/decodeType frames alternate; helper calls add a constant
	vrt.Check(frames <= uint64(md)+8 || !vrt.Symbolic(), "C15 recursion depth is bounded by the remaining budget")
	if md == 0 {
		vrt.Check(cls == 106 && n == 0, "C15 a zero budget is refused with the depth-limit error before reading input")
		vrt.Reach("zero")
	}
	perLevel := 2
	if via != 0 {
		perLevel = 3
	}
	if md >= perLevel*k+2 {
		vrt.Check(derr == nil && n == len(msg), "C15 a sufficient budget decodes the message")
		vrt.Reach("enough")
	} else if md <= k {
		vrt.Check(cls == 106, "C15 an insufficient budget yields the depth-limit protocol error")
		vrt.Reach("short")
	} else {
		vrt.Check(derr == nil || cls == 106, "C15 success or depth-limit error only")
	}
	vrt.Reach("end")
}

// VerifGuards (C08): declares the lock discipline of the process-wide caches to the engine. Called once after
// package initialisation: the two plain maps may only be accessed, and the descriptor hash map only be
// written, with sdsmu held.
func VerifGuards() {
	mu := unsafe.Pointer(&sdsmu)
	vrt.GuardedBy(mu, *(*unsafe.Pointer)(unsafe.Pointer(&ttypes)))
	vrt.GuardedBy(mu, *(*unsafe.Pointer)(unsafe.Pointer(&prefetchStructDescCache)))
	vrt.GuardedBy(mu, unsafe.Pointer(sds))
}

// VerifDescMapProtocol (C08): the read-lock-free descriptor map under arbitrary keys (same-bucket collisions
// included): Get returns exactly what the last Set for that key stored; a snapshot a reader obtained before a
// Set is never modified afterwards (copy-on-write; the engine flags any store to memory published through an
// atomic pointer); Set of an unchanged mapping does not republish.
func VerifDescMapProtocol() {
	m := newMapStructDesc()
	bk := []uintptr{0, 1, mapStructDescBuckets}
	key := func(name string) uintptr {
		return uintptr(vrt.U32(name))<<16 | bk[vrt.Choice(name+".bucket", len(bk))]
	}
	k1, k2, k3 := key("k1"), key("k2"), key("k3")
	sd1, sd2, sd3 := &structDesc{maxID: 1}, &structDesc{maxID: 2}, &structDesc{maxID: 3}
	vrt.Check(m.Get(k1) == nil, "C08 empty map has no entry")
	m.Set(k1, sd1)
	// a concurrent reader takes its snapshot of k1's slot now
	snap := m.slots[k1&mapStructDescBuckets].Load()
	var before []mapStructDescItem
	if snap != nil {
		before = append(before, (*snap)...)
	}
	m.Set(k2, sd2)
	m.Set(k1, sd3)
	m.Set(k3, sd1)
	m.Set(k3, sd1) // no-op
	// the old snapshot is intact
	if snap != nil {
		vrt.Check(len(*snap) == len(before), "C08 a published slot is never resized in place")
		for i := range before {
			vrt.Check((*snap)[i] == before[i], "C08 a published slot is never modified in place")
		}
	}
	// functional behaviour for every key
	want := func(k uintptr) *structDesc {
		var r *structDesc
		if k == k1 {
			r = sd3
		}
		if k == k2 {
			r = sd2
			if k1 == k2 {
				r = sd3 // k1 was set again after k2
			}
		}
		if k == k3 {
			r = sd1
		}
		return r
	}
	for _, k := range []uintptr{k1, k2, k3, key("probe")} {
		vrt.Check(m.Get(k) == want(k), "C08 Get returns the descriptor last stored for exactly that key")
	}
	vrt.Reach("end")
}

// VerifOnPublish (C08): called by the engine right after every atomic Store into the descriptor map, with the
// pointer just published. Everything a lock-free reader can reach from it through the edges the codec follows
// must be complete at that moment: every struct type node carries its descriptor ("publish only after nested
// descriptors are complete"), recursively.
func VerifOnPublish(p unsafe.Pointer) {
	items := *(*[]mapStructDescItem)(p)
	seen := map[*structDesc]bool{}
	for i := range items {
		vrt.Check(items[i].sd != nil, "C08 a published slot holds no nil descriptor")
		verifComplete(items[i].sd, seen)
	}
}

func verifComplete(sd *structDesc, seen map[*structDesc]bool) {
	if sd == nil || seen[sd] {
		return
	}
	seen[sd] = true
	for _, f := range sd.fields {
		verifCompleteType(f.Type, seen)
	}
}

func verifCompleteType(t *tType, seen map[*structDesc]bool) {
	if t == nil {
		return
	}
	switch t.T {
	case tSTRUCT:
		vrt.Check(t.Sd != nil, "C08 descriptor published while a struct type node reachable from it has no descriptor yet")
		verifComplete(t.Sd, seen)
	case tLIST, tSET:
		verifCompleteType(t.V, seen)
	case tMAP:
		verifCompleteType(t.K, seen)
		verifCompleteType(t.V, seen)
	}
}
