package reflect

import (
	"unsafe"

	"github.com/cloudwego/frugal/internal/vrt"
)

// ---- C09(1): bitset lemma, arbitrary contents, arbitrary indices ----

func VerifBitsetLemma() {
	var s bitset
	vrt.HavocBytes("bits", unsafe.Pointer(&s), int(unsafe.Sizeof(s)))
	i := vrt.U16("i")
	j := vrt.U16("j")
	oldj := s.test(j)
	op := vrt.Choice("op", 2)
	if op == 0 {
		s.set(i)
		vrt.Check(s.test(i), "set(i) then test(i)")
		if j != i {
			vrt.Check(s.test(j) == oldj, "set(i) leaves j!=i alone")
		}
		vrt.Reach("set")
	} else {
		s.unset(i)
		vrt.Check(!s.test(i), "unset(i) then !test(i)")
		if j != i {
			vrt.Check(s.test(j) == oldj, "unset(i) leaves j!=i alone")
		}
		vrt.Reach("unset")
	}
}
