package vrt

import "sync"

// RunConcurrently runs the functions as concurrent goroutines and returns when all have finished. The engine
// explores their interleavings at synchronisation operations (bounded preemptions) with a happens-before race
// detector; natively it is plain goroutines released together by a start barrier.
func RunConcurrently(fs ...func()) {
	var wg sync.WaitGroup
	start := make(chan struct{})
	for _, f := range fs {
		wg.Add(1)
		go func(f func()) {
			defer wg.Done()
			<-start
			f()
		}(f)
	}
	close(start)
	wg.Wait()
}
