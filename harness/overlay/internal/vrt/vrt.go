// Package vrt holds the harness intrinsics of the /verif symbolic executor
// (gosym). The engine intercepts every function of this package by name; the
// bodies below implement NATIVE REPLAY of a recorded counterexample: nondet
// values come, in call order, from the JSON file named by VERIF_REPLAY.
package vrt

import (
	"encoding/json"
	"errors"
	"fmt"
	"io"
	"os"
	"runtime"
	"strings"
	"unsafe"

	"github.com/cloudwego/gopkg/protocol/thrift"
)

type NondetVal struct {
	Name  string `json:"name"`
	Kind  string `json:"kind"`
	Value uint64 `json:"value"`
}

type Replay struct {
	Kind    string      `json:"kind"`
	Label   string      `json:"label"`
	Nondets []NondetVal `json:"nondets"`
}

var tvSeed uint64

func splitmix(x uint64) uint64 {
	x += 0x9e3779b97f4a7c15
	x = (x ^ (x >> 30)) * 0xbf58476d1ce4e5b9
	x = (x ^ (x >> 27)) * 0x94d049bb133111eb
	return x ^ (x >> 31)
}

var (
	rec       []NondetVal
	pos       int
	Failures  []string
	Reached   = map[string]bool{}
	loaded    bool
	lastPanic string
)

func load() {
	if loaded {
		return
	}
	loaded = true
	if s := os.Getenv("VERIF_TV_SEED"); s != "" {
		fmt.Sscan(s, &tvSeed)
		return
	}
	f := os.Getenv("VERIF_REPLAY")
	if f == "" {
		return
	}
	data, err := os.ReadFile(f)
	if err != nil {
		panic("vrt: cannot read replay file: " + err.Error())
	}
	var r Replay
	if err := json.Unmarshal(data, &r); err != nil {
		panic("vrt: bad replay file: " + err.Error())
	}
	rec = r.Nondets
}

// Reset restarts consumption of the recorded values (used between harness runs).
func Reset() { load(); pos = 0; Failures = nil; Observed = nil; Reached = map[string]bool{} }

var ndTrace = os.Getenv("VERIF_ND_TRACE") != ""

func next(name, kind string) uint64 {
	load()
	if tvSeed != 0 {
		v := splitmix(tvSeed + uint64(pos)*0x100000001b3)
		pos++
		if v%4 == 0 {
			v = v >> 8 % 3
		}
		if ndTrace {
			fmt.Printf("VERIF-ND: %d %s %s\n", pos-1, kind, name)
		}
		return v
	}
	if pos >= len(rec) {
		// beyond the recorded path: unconstrained values default to zero
		return 0
	}
	v := rec[pos]
	pos++
	if v.Kind != kind {
		panic(fmt.Sprintf("vrt: replay divergence at #%d: harness asks %s %q, record has %s %q", pos-1, kind, name, v.Kind, v.Name))
	}
	return v.Value
}

func U8(name string) uint8   { return uint8(next(name, "u8")) }
func U16(name string) uint16 { return uint16(next(name, "u16")) }
func U32(name string) uint32 { return uint32(next(name, "u32")) }
func U64(name string) uint64 { return next(name, "u64") }
func Bool(name string) bool  { return next(name, "bool") != 0 }

func Bytes(name string, n int) []byte {
	b := make([]byte, n)
	for i := range b {
		b[i] = uint8(next(name, "u8"))
	}
	return b
}

func String(name string, n int) string {
	if n == 0 {
		return ""
	}
	return string(Bytes(name, n))
}

func Choice(name string, n int) int {
	if tvSeed != 0 {
		return int(next(name, "choice") % uint64(n))
	}
	return int(next(name, "choice"))
}

type assumeFailed struct{}

func (assumeFailed) Error() string {
	return "assumeFailed: the run left the region the harness assumes"
}

// Assume: natively an assumption that does not hold means the replay left the recorded path.
func Assume(c bool) {
	if !c {
		panic(assumeFailed{})
	}
}

func Check(c bool, label string) {
	if !c {
		Failures = append(Failures, label)
	}
}
func Fail(label string)  { Failures = append(Failures, label) }
func Reach(label string) { Reached[label] = true }

func And(a, b bool) bool     { return a && b }
func Or(a, b bool) bool      { return a || b }
func Implies(a, b bool) bool { return !a || b }
func IteU64(c bool, a, b uint64) uint64 {
	if c {
		return a
	}
	return b
}
func ParamOr(name string, def int) int {
	if s := os.Getenv("VERIF_PARAM_" + name); s != "" {
		var v int
		fmt.Sscan(s, &v)
		return v
	}
	return def
}

func B2U(b bool) uint64 {
	if b {
		return 1
	}
	return 0
}
func BytesEq(a, b []byte) bool { return string(a) == string(b) }
func StrEq(a, b string) bool   { return a == b }
func F64Eq(a, b uint64) bool {
	return *(*float64)(unsafe.Pointer(&a)) == *(*float64)(unsafe.Pointer(&b))
}
func IsConcrete(x uint64) bool { return true }
func Symbolic() bool           { return false }

// ---- memory-model queries: natively these are no-ops / neutral answers; the
// monitors they feed are confirmed natively by other observables (see replay).
func SetOwner(tag string)                       {}
func Freeze(tag string, on bool)                {}
func FreezePtr(p unsafe.Pointer, on bool)       {}
func IsOwner(p unsafe.Pointer, tag string) bool { return true }

// IsStatic: p points into immutable static data (string literals). Natively: the gc toolchain on linux/amd64
// places static data far below the heap arena, which starts at 0xc000000000.
func GuardedBy(mu, p unsafe.Pointer)        {}
func IsStatic(p unsafe.Pointer) bool        { return uintptr(p) < 0xc000000000 }
func BlockID(p unsafe.Pointer) uint64       { return uint64(uintptr(p)) &^ 0 }
func BlockOff(p unsafe.Pointer) uint64      { return 0 }
func BlockSize(p unsafe.Pointer) uint64     { return 0 }
func BlockNoScan(p unsafe.Pointer) bool     { return false }
func BlockElemSize(p unsafe.Pointer) uint64 { return 0 }
func BlockTypeName(p unsafe.Pointer) string { return "" }

var allocBase uint64

// AllocBytes: bytes requested from the allocator since ResetAllocBytes (natively: MemStats.TotalAlloc delta).
func AllocBytes() uint64 {
	var ms runtime.MemStats
	runtime.ReadMemStats(&ms)
	d := ms.TotalAlloc - allocBase
	if d < 1<<20 {
		// natively the figure includes cold-pool objects and runtime bookkeeping the engine does not count;
		// only allocations out of all proportion (>= 1 MiB for inputs of a few dozen bytes) are observable here
		return 0
	}
	return d
}

func ResetAllocBytes() {
	var ms runtime.MemStats
	runtime.ReadMemStats(&ms)
	allocBase = ms.TotalAlloc
}
var allocMS runtime.MemStats
var mallocBase uint64

// AllocTrack / AllocEvents bracket a measured region (C18). Engine: number of executed operations that allocate on the
// heap whatever escape analysis decides (growslice, make with non-constant size, mallocgc, reflect.New/MakeMap, pool miss,
// fmt/strings helpers). Natively: MemStats.Mallocs delta (what testing.AllocsPerRun measures), used to confirm witnesses.
func AllocTrack() {
	runtime.ReadMemStats(&allocMS)
	mallocBase = allocMS.Mallocs
}
func AllocEvents() uint64 {
	runtime.ReadMemStats(&allocMS)
	return allocMS.Mallocs - mallocBase
}

// AllocReps: how often the measured region is repeated (the minimum counts): 1 in the engine, 5 natively (noise).
func AllocReps() int { return 5 }

func MaxDepth() uint64      { return 0 }
func ResetMaxDepth() uint64 { return 0 }
func Steps() uint64         { return 0 }
func PoolPolicy(s string)   {}
func Note(s string)         {}
func Phase(s string)        {}

var poisonSink [][]byte

// PoisonHeap leaves recently used non-zero memory on the allocator's free lists so that reads of
// uninitialised memory (mallocgc without zeroing) are observable natively. Only used by native replay.
func PoisonHeap() {
	for round := 0; round < 2; round++ {
		for _, sz := range []int{8, 16, 24, 32, 48, 64, 96, 128, 192, 256, 384, 512, 1024, 2048, 2688, 3072, 4096, 8192} {
			for i := 0; i < 256; i++ {
				b := make([]byte, sz)
				for j := range b {
					b[j] = 0xA5
				}
				poisonSink = append(poisonSink, b)
			}
		}
		poisonSink = nil
		runtime.GC()
	}
}

// Param: per-job integer parameter (engine: job cfg; native: VERIF_PARAM_<name>).
func Param(name string) int {
	var v int
	fmt.Sscan(os.Getenv("VERIF_PARAM_"+name), &v)
	return v
}

var Observed []string

func Observe(name string, b []byte)   { Observed = append(Observed, fmt.Sprintf("%s=%x", name, b)) }
func MutexHeld(p unsafe.Pointer) bool { return true }
func HavocBytes(name string, p unsafe.Pointer, n int) {
	b := unsafe.Slice((*byte)(p), n)
	for i := 0; i < n; {
		k := 8
		if n-i < 8 {
			k = n - i
		}
		switch k {
		case 8:
			*(*uint64)(unsafe.Pointer(&b[i])) = next(name, "u64")
		case 4:
			*(*uint32)(unsafe.Pointer(&b[i])) = uint32(next(name, "u32"))
		case 2:
			*(*uint16)(unsafe.Pointer(&b[i])) = uint16(next(name, "u16"))
		default:
			k = 1
			b[i] = uint8(next(name, "u8"))
		}
		i += k
	}
}

// ErrClass: 0 nil; 1 io.ErrShortBuffer; 100+TypeId for thrift.ProtocolException; 2 other.
func ErrClass(err error) int {
	if err == nil {
		return 0
	}
	var pe *thrift.ProtocolException
	if errors.As(err, &pe) {
		return 100 + int(pe.TypeId())
	}
	if errors.Is(err, io.ErrShortBuffer) {
		return 1
	}
	return 2
}

func ErrMsgContains(err error, sub string) bool {
	return err != nil && strings.Contains(err.Error(), sub)
}

// Catch: 0 normal return, 1 ordinary panic(value), 2 runtime error panic (index, nil deref...).
func Catch(f func()) (res int) {
	defer func() {
		if r := recover(); r != nil {
			if _, ok := r.(assumeFailed); ok {
				panic(r)
			}
			lastPanic = fmt.Sprint(r)
			if _, ok := r.(interface{ RuntimeError() }); ok {
				res = 2
			} else {
				res = 1
			}
		}
	}()
	f()
	return 0
}

func LastPanicContains(sub string) bool { return strings.Contains(lastPanic, sub) }
