package frugal

// C08: bounded schedule exploration. Three goroutines run at once: two make the very first use of two
// mutually nested types (CcA <-> CcB, which also pull in CcIn), the third runs steady-state calls on a type
// registered before. Every result is compared with the independently written expected bytes / values, i.e.
// with what the sequential execution returns; the engine checks every plain memory access and every Go-map
// operation made inside the concurrent region with a happens-before race detector and reports deadlocks.

import (
	"github.com/cloudwego/frugal/internal/vrt"
)

type CcLeaf struct {
	X int32  `frugal:"1,default,i32"`
	S string `frugal:"2,default,string"`
}

type CcIn struct {
	V int16 `frugal:"1,default,i16"`
}

type CcA struct {
	B *CcB  `frugal:"1,optional,CcB"`
	N int32 `frugal:"2,default,i32"`
}

type CcB struct {
	A *CcA  `frugal:"1,optional,CcA"`
	I *CcIn `frugal:"2,optional,CcIn"`
	M int64 `frugal:"3,default,i64"`
}

// CcBad nests the valid CcIn and CcB before an unsupported field: its registration fails after descriptors of
// the nested types were prefetched, and is rolled back while other goroutines register or use those types.
type CcBad struct {
	I *CcIn               `frugal:"1,optional,CcIn"`
	B *CcB                `frugal:"2,optional,CcB"`
	X map[string]*[]int32 `frugal:"3,default,map<string:list<i32>>"`
}

func VerifSetupConc() {
	EncodedSize(&CcLeaf{})
}

func ccI32(b []byte, v int32) []byte {
	return append(b, byte(uint32(v)>>24), byte(uint32(v)>>16), byte(uint32(v)>>8), byte(uint32(v)))
}

func ccHdr(b []byte, t byte, id int) []byte { return append(b, t, byte(id>>8), byte(id)) }

// expected encodings (thrift binary protocol), written independently of the implementation
func ccEncA(a *CcA) []byte {
	var b []byte
	if a.B != nil {
		b = append(ccHdr(b, 12, 1), ccEncB(a.B)...)
	}
	b = ccI32(ccHdr(b, 8, 2), a.N)
	return append(b, 0)
}

func ccEncB(x *CcB) []byte {
	var b []byte
	if x.A != nil {
		b = append(ccHdr(b, 12, 1), ccEncA(x.A)...)
	}
	if x.I != nil {
		b = ccHdr(b, 12, 2)
		b = append(ccHdr(b, 6, 1), byte(uint16(x.I.V)>>8), byte(x.I.V), 0)
	}
	b = ccHdr(b, 10, 3)
	b = ccI32(b, int32(x.M>>32))
	b = ccI32(b, int32(x.M))
	return append(b, 0)
}

func ccEncLeaf(l *CcLeaf) []byte {
	b := ccI32(ccHdr(nil, 8, 1), l.X)
	b = ccI32(ccHdr(b, 11, 2), int32(len(l.S)))
	b = append(b, l.S...)
	return append(b, 0)
}

func ccEqA(x, y *CcA) bool {
	if x == nil || y == nil {
		return x == nil && y == nil
	}
	return x.N == y.N && ccEqB(x.B, y.B)
}

func ccEqB(x, y *CcB) bool {
	if x == nil || y == nil {
		return x == nil && y == nil
	}
	if (x.I == nil) != (y.I == nil) || (x.I != nil && x.I.V != y.I.V) {
		return false
	}
	return x.M == y.M && ccEqA(x.A, y.A)
}

type ccResult struct {
	size, n  int
	encErr   error
	buf      []byte
	decN     int
	decErr   error
	panicked bool
}

func ccCall(r *ccResult, v interface{}, want int, out interface{}) {
	defer func() {
		if e := recover(); e != nil {
			r.panicked = true
		}
	}()
	r.size = EncodedSize(v)
	r.buf = make([]byte, want)
	r.n, r.encErr = EncodeObject(r.buf, nil, v)
	r.decN, r.decErr = DecodeObject(r.buf, out)
}

func ccCheck(r *ccResult, want []byte, who string) {
	vrt.Check(!r.panicked, "C08 no crash in a concurrent call ("+who+")")
	vrt.Check(r.size == len(want), "C08 concurrent EncodedSize returns the sequential result ("+who+")")
	vrt.Check(r.encErr == nil && r.n == len(want), "C08 concurrent EncodeObject returns the sequential result ("+who+")")
	vrt.Check(vrt.BytesEq(r.buf, want), "C08 concurrent EncodeObject writes the sequential bytes ("+who+")")
	vrt.Check(r.decErr == nil && r.decN == len(want), "C08 concurrent DecodeObject returns the sequential result ("+who+")")
}

func VerifConcurrent() {
	vrt.SetOwner("user")
	n := int32(vrt.U32("n"))
	m := int64(vrt.U64("m"))
	a := &CcA{N: n, B: &CcB{M: m, A: &CcA{N: 7}, I: &CcIn{V: int16(n)}}}
	b := &CcB{M: m + 1, A: &CcA{N: n + 1, B: &CcB{M: 3}}}
	l := &CcLeaf{X: n, S: "leaf"}
	wa, wb, wl := ccEncA(a), ccEncB(b), ccEncLeaf(l)
	var ra, rb, rl ccResult
	var oa CcA
	var ob CcB
	var ol CcLeaf
	vrt.SetOwner("impl")
	mode := vrt.ParamOr("mode", 0)
	if vrt.ParamOr("pool", 0) == 1 {
		vrt.PoolPolicy("fresh") // every Pool.Get misses (per-P pools of other goroutines): the other legal extreme
	}
	fa := func() { ccCall(&ra, a, len(wa), &oa) }
	fb := func() { ccCall(&rb, b, len(wb), &ob) }
	fl := func() { ccCall(&rl, l, len(wl), &ol) }
	in := &CcIn{V: int16(m)}
	win := append(ccHdr(nil, 6, 1), byte(uint16(in.V)>>8), byte(in.V), 0)
	var rin ccResult
	var oin CcIn
	fin := func() { ccCall(&rin, in, len(win), &oin) }
	var badErr, badDecErr error
	badPanic := 0
	fbad := func() {
		buf := make([]byte, 16)
		_, badErr = EncodeObject(buf, nil, &CcBad{})
		badPanic = vrt.Catch(func() { EncodedSize(&CcBad{}) })
		_, badDecErr = DecodeObject([]byte{0}, &CcBad{})
	}
	useB, useL, useIn, useBad := false, false, false, false
	switch mode {
	case 0: // two first uses of mutually nested types
		useB = true
		vrt.RunConcurrently(fa, fb)
	case 1: // first use next to a steady-state caller
		useL = true
		vrt.RunConcurrently(fa, fl)
	case 2: // all three
		useB, useL = true, true
		vrt.RunConcurrently(fa, fb, fl)
	case 3: // the same fresh type from two goroutines
		var ra2 ccResult
		var oa2 CcA
		vrt.RunConcurrently(fa, func() { ccCall(&ra2, a, len(wa), &oa2) })
		ccCheck(&ra2, wa, "A'")
		vrt.Check(ccEqA(&oa2, a), "C08 concurrent DecodeObject yields the sequential value (A')")
	case 4: // a type nested in a registration in progress is used as a top-level type by another goroutine
		useIn = true
		vrt.RunConcurrently(fa, fin)
	case 5:
		useB, useIn, useL = true, true, true
		vrt.RunConcurrently(fa, fb, fin, fl)
	case 6: // a failing registration (rolled back) next to first uses of the types it nests
		useB, useBad = true, true
		vrt.RunConcurrently(fa, fbad, fb)
	case 7:
		useIn, useBad = true, true
		vrt.RunConcurrently(fbad, fin, fa)
	}
	ccCheck(&ra, wa, "A")
	vrt.Check(ccEqA(&oa, a), "C08 concurrent DecodeObject yields the sequential value (A)")
	if useB {
		ccCheck(&rb, wb, "B")
		vrt.Check(ccEqB(&ob, b), "C08 concurrent DecodeObject yields the sequential value (B)")
	}
	if useIn {
		ccCheck(&rin, win, "In")
		vrt.Check(oin.V == in.V, "C08 concurrent DecodeObject yields the sequential value (In)")
	}
	if useBad {
		vrt.Check(badErr != nil && badDecErr != nil && badPanic == 1, "C08 an unsupported type is rejected the same way under concurrency")
	}
	if useL {
		ccCheck(&rl, wl, "Leaf")
		vrt.Check(ol.X == l.X && ol.S == l.S, "C08 concurrent DecodeObject yields the sequential value (Leaf)")
	}
	// afterwards, sequentially: the registered descriptors are sound
	var oa3 CcA
	var r3 ccResult
	ccCall(&r3, a, len(wa), &oa3)
	ccCheck(&r3, wa, "A after")
	vrt.Reach("end")
}
