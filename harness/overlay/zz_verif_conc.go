package frugal

// C08: bounded schedule exploration. Three goroutines run at once: two make the very first use of two
// mutually nested types (CcA <-> CcB, which also pull in CcIn), the third runs steady-state calls on a type
// registered before. Every result is compared with the independently written expected bytes / values, i.e.
// with what the sequential execution returns; the engine checks every plain memory access and every Go-map
// operation made inside the concurrent region with a happens-before race detector and reports deadlocks.

import (
	"github.com/cloudwego/frugal/internal/vrt"
)

type CcLeaf struct {
	X int32  `frugal:"1,default,i32"`
	S string `frugal:"2,default,string"`
}

type CcIn struct {
	V int16 `frugal:"1,default,i16"`
}

type CcA struct {
	B *CcB  `frugal:"1,optional,CcB"`
	N int32 `frugal:"2,default,i32"`
}

type CcB struct {
	A *CcA  `frugal:"1,optional,CcA"`
	I *CcIn `frugal:"2,optional,CcIn"`
	M int64 `frugal:"3,default,i64"`
}

// CcBad nests the valid CcIn and CcB before an unsupported field: its registration fails after descriptors of
// the nested types were prefetched, and is rolled back while other goroutines register or use those types.
type CcBad struct {
	I *CcIn               `frugal:"1,optional,CcIn"`
	B *CcB                `frugal:"2,optional,CcB"`
	X map[string]*[]int32 `frugal:"3,default,map<string:list<i32>>"`
}

// CcM: containers whose steady-state encode/decode goes through per-type helpers (map iteration scratch, temp-variable
// pools, batched element allocation).
type CcM struct {
	M map[int32]string `frugal:"1,default,map<i32:string>"`
	L []*CcLeaf        `frugal:"2,default,list<CcLeaf>"`
	V map[int32]CcIn   `frugal:"3,default,map<i32:CcIn>"`
	D []*CcDf          `frugal:"4,default,list<CcDf>"`
}

// CcDf declares defaults: the decoder initialises every nested CcDf it creates before reading its fields.
type CcDf struct {
	A int32  `frugal:"1,optional,i32"`
	B string `frugal:"2,optional,string"`
	C int16  `frugal:"3,default,i16"`
}

func (p *CcDf) InitDefault() {
	p.A = 41
	p.B = "dflt"
}

func VerifSetupConc() {
	EncodedSize(&CcLeaf{})
	EncodedSize(&CcM{})
}

func ccEncM(m *CcM) []byte {
	b := append(ccHdr(nil, 13, 1), 8, 11)
	b = ccI32(b, int32(len(m.M)))
	for k, v := range m.M { // at most one entry in the harness: order is immaterial
		b = ccI32(ccI32(b, k), int32(len(v)))
		b = append(b, v...)
	}
	b = append(ccHdr(b, 15, 2), 12)
	b = ccI32(b, int32(len(m.L)))
	for _, l := range m.L {
		b = append(b, ccEncLeaf(l)...)
	}
	b = append(ccHdr(b, 13, 3), 8, 12)
	b = ccI32(b, int32(len(m.V)))
	for k, v := range m.V {
		b = ccI32(b, k)
		b = append(ccHdr(b, 6, 1), byte(uint16(v.V)>>8), byte(v.V), 0)
	}
	// D: every element carries only C (A and B are omitted on the wire: the receiver keeps the declared defaults)
	b = append(ccHdr(b, 15, 4), 12)
	b = ccI32(b, int32(len(m.D)))
	for _, d := range m.D {
		b = append(ccHdr(b, 6, 3), byte(uint16(d.C)>>8), byte(d.C), 0)
	}
	return append(b, 0)
}

func ccEqM(x, y *CcM) bool {
	if len(x.M) != len(y.M) || len(x.L) != len(y.L) || len(x.V) != len(y.V) || len(x.D) != len(y.D) {
		return false
	}
	for i := range y.D {
		if x.D[i] == nil || *x.D[i] != *y.D[i] {
			return false
		}
	}
	for k, v := range y.M {
		if w, ok := x.M[k]; !ok || w != v {
			return false
		}
	}
	for i := range y.L {
		if x.L[i] == nil || x.L[i].X != y.L[i].X || x.L[i].S != y.L[i].S {
			return false
		}
	}
	for k, v := range y.V {
		if w, ok := x.V[k]; !ok || w != v {
			return false
		}
	}
	return true
}

func ccI32(b []byte, v int32) []byte {
	return append(b, byte(uint32(v)>>24), byte(uint32(v)>>16), byte(uint32(v)>>8), byte(uint32(v)))
}

func ccHdr(b []byte, t byte, id int) []byte { return append(b, t, byte(id>>8), byte(id)) }

// expected encodings (thrift binary protocol), written independently of the implementation
func ccEncA(a *CcA) []byte {
	var b []byte
	if a.B != nil {
		b = append(ccHdr(b, 12, 1), ccEncB(a.B)...)
	}
	b = ccI32(ccHdr(b, 8, 2), a.N)
	return append(b, 0)
}

func ccEncB(x *CcB) []byte {
	var b []byte
	if x.A != nil {
		b = append(ccHdr(b, 12, 1), ccEncA(x.A)...)
	}
	if x.I != nil {
		b = ccHdr(b, 12, 2)
		b = append(ccHdr(b, 6, 1), byte(uint16(x.I.V)>>8), byte(x.I.V), 0)
	}
	b = ccHdr(b, 10, 3)
	b = ccI32(b, int32(x.M>>32))
	b = ccI32(b, int32(x.M))
	return append(b, 0)
}

func ccEncLeaf(l *CcLeaf) []byte {
	b := ccI32(ccHdr(nil, 8, 1), l.X)
	b = ccI32(ccHdr(b, 11, 2), int32(len(l.S)))
	b = append(b, l.S...)
	return append(b, 0)
}

func ccEqA(x, y *CcA) bool {
	if x == nil || y == nil {
		return x == nil && y == nil
	}
	return x.N == y.N && ccEqB(x.B, y.B)
}

func ccEqB(x, y *CcB) bool {
	if x == nil || y == nil {
		return x == nil && y == nil
	}
	if (x.I == nil) != (y.I == nil) || (x.I != nil && x.I.V != y.I.V) {
		return false
	}
	return x.M == y.M && ccEqA(x.A, y.A)
}

type ccResult struct {
	size, n  int
	encErr   error
	buf      []byte
	decN     int
	decErr   error
	panicked bool
}

func ccCall(r *ccResult, v interface{}, want int, out interface{}) {
	defer func() {
		if e := recover(); e != nil {
			r.panicked = true
		}
	}()
	r.size = EncodedSize(v)
	r.buf = make([]byte, want)
	r.n, r.encErr = EncodeObject(r.buf, nil, v)
	r.decN, r.decErr = DecodeObject(r.buf, out)
}

func ccCheck(r *ccResult, want []byte, who string) {
	vrt.Check(!r.panicked, "C08 no crash in a concurrent call ("+who+")")
	vrt.Check(r.size == len(want), "C08 concurrent EncodedSize returns the sequential result ("+who+")")
	vrt.Check(r.encErr == nil && r.n == len(want), "C08 concurrent EncodeObject returns the sequential result ("+who+")")
	vrt.Check(vrt.BytesEq(r.buf, want), "C08 concurrent EncodeObject writes the sequential bytes ("+who+")")
	vrt.Check(r.decErr == nil && r.decN == len(want), "C08 concurrent DecodeObject returns the sequential result ("+who+")")
}

func VerifConcurrent() {
	vrt.SetOwner("user")
	n := int32(vrt.U32("n"))
	m := int64(vrt.U64("m"))
	a := &CcA{N: n, B: &CcB{M: m, A: &CcA{N: 7}, I: &CcIn{V: int16(n)}}}
	b := &CcB{M: m + 1, A: &CcA{N: n + 1, B: &CcB{M: 3}}}
	l := &CcLeaf{X: n, S: "leaf"}
	wa, wb, wl := ccEncA(a), ccEncB(b), ccEncLeaf(l)
	var ra, rb, rl ccResult
	var oa CcA
	var ob CcB
	var ol CcLeaf
	vrt.SetOwner("impl")
	mode := vrt.ParamOr("mode", 0)
	if vrt.ParamOr("pool", 0) == 1 {
		vrt.PoolPolicy("fresh") // every Pool.Get misses (per-P pools of other goroutines): the other legal extreme
	}
	fa := func() { ccCall(&ra, a, len(wa), &oa) }
	fb := func() { ccCall(&rb, b, len(wb), &ob) }
	fl := func() { ccCall(&rl, l, len(wl), &ol) }
	in := &CcIn{V: int16(m)}
	win := append(ccHdr(nil, 6, 1), byte(uint16(in.V)>>8), byte(in.V), 0)
	var rin ccResult
	var oin CcIn
	fin := func() { ccCall(&rin, in, len(win), &oin) }
	var badErr, badDecErr error
	badPanic := 0
	fbad := func() {
		buf := make([]byte, 16)
		_, badErr = EncodeObject(buf, nil, &CcBad{})
		badPanic = vrt.Catch(func() { EncodedSize(&CcBad{}) })
		_, badDecErr = DecodeObject([]byte{0}, &CcBad{})
	}
	useB, useL, useIn, useBad := false, false, false, false
	return8 := false
	switch mode {
	case 0: // two first uses of mutually nested types
		useB = true
		vrt.RunConcurrently(fa, fb)
	case 1: // first use next to a steady-state caller
		useL = true
		vrt.RunConcurrently(fa, fl)
	case 2: // all three
		useB, useL = true, true
		vrt.RunConcurrently(fa, fb, fl)
	case 3: // the same fresh type from two goroutines
		var ra2 ccResult
		var oa2 CcA
		vrt.RunConcurrently(fa, func() { ccCall(&ra2, a, len(wa), &oa2) })
		ccCheck(&ra2, wa, "A'")
		vrt.Check(ccEqA(&oa2, a), "C08 concurrent DecodeObject yields the sequential value (A')")
	case 4: // a type nested in a registration in progress is used as a top-level type by another goroutine
		useIn = true
		vrt.RunConcurrently(fa, fin)
	case 5:
		useB, useIn, useL = true, true, true
		vrt.RunConcurrently(fa, fb, fin, fl)
	case 6: // a failing registration (rolled back) next to first uses of the types it nests
		useB, useBad = true, true
		vrt.RunConcurrently(fa, fbad, fb)
	case 7:
		useIn, useBad = true, true
		vrt.RunConcurrently(fbad, fin, fa)
	case 8, 9: // steady state only: two (8) / three (9) goroutines on the SAME registered types at once
		l2 := &CcLeaf{X: n + 5, S: "other"}
		wl2 := ccEncLeaf(l2)
		var rl2 ccResult
		var ol2 CcLeaf
		m1 := &CcM{M: map[int32]string{n: "one"}, L: []*CcLeaf{{X: n, S: "a"}}, V: map[int32]CcIn{7: {V: int16(m)}}, D: []*CcDf{{A: 41, B: "dflt", C: int16(n)}, {A: 41, B: "dflt", C: 2}}}
		m2 := &CcM{M: map[int32]string{n + 1: "two!"}, L: []*CcLeaf{{X: 9, S: ""}, {X: n, S: "bb"}}, V: map[int32]CcIn{n: {V: 3}}, D: []*CcDf{{A: 41, B: "dflt", C: 5}}}
		wm1, wm2 := ccEncM(m1), ccEncM(m2)
		var rm1, rm2 ccResult
		var om1, om2 CcM
		f1 := func() { ccCall(&rm1, m1, len(wm1), &om1); ccCall(&rl, l, len(wl), &ol) }
		f2 := func() { ccCall(&rl2, l2, len(wl2), &ol2); ccCall(&rm2, m2, len(wm2), &om2) }
		if mode == 8 {
			vrt.RunConcurrently(f1, f2)
		} else {
			vrt.RunConcurrently(f1, f2, fa)
		}
		useL = true
		ccCheck(&rl2, wl2, "Leaf'")
		vrt.Check(ol2.X == l2.X && ol2.S == l2.S, "C08 concurrent DecodeObject yields the sequential value (Leaf')")
		ccCheck(&rm1, wm1, "M1")
		vrt.Check(ccEqM(&om1, m1), "C08 concurrent DecodeObject yields the sequential value (M1)")
		ccCheck(&rm2, wm2, "M2")
		vrt.Check(ccEqM(&om2, m2), "C08 concurrent DecodeObject yields the sequential value (M2)")
		if mode == 8 {
			return8 = true
		}
	}
	if !return8 {
		ccCheck(&ra, wa, "A")
		vrt.Check(ccEqA(&oa, a), "C08 concurrent DecodeObject yields the sequential value (A)")
	}
	if useB {
		ccCheck(&rb, wb, "B")
		vrt.Check(ccEqB(&ob, b), "C08 concurrent DecodeObject yields the sequential value (B)")
	}
	if useIn {
		ccCheck(&rin, win, "In")
		vrt.Check(oin.V == in.V, "C08 concurrent DecodeObject yields the sequential value (In)")
	}
	if useBad {
		vrt.Check(badErr != nil && badDecErr != nil && badPanic == 1, "C08 an unsupported type is rejected the same way under concurrency")
	}
	if useL {
		ccCheck(&rl, wl, "Leaf")
		vrt.Check(ol.X == l.X && ol.S == l.S, "C08 concurrent DecodeObject yields the sequential value (Leaf)")
	}
	// afterwards, sequentially: the registered descriptors are sound
	var oa3 CcA
	var r3 ccResult
	ccCall(&r3, a, len(wa), &oa3)
	ccCheck(&r3, wa, "A after")
	vrt.Reach("end")
}
