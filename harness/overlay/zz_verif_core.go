package frugal

// Harness cores shared by all generated per-type harnesses. Public API only:
// EncodedSize / EncodeObject / DecodeObject.

import (
	"unsafe"

	ireflect "github.com/cloudwego/frugal/internal/reflect"
	"github.com/cloudwego/frugal/internal/vrt"
)

// typeOps is what the generator provides for a corpus type T.
type typeOps struct {
	St      *RStruct
	New     func() interface{}               // new(T), default-initialised when T declares defaults
	NewZero func() interface{}               // new(T) without defaults
	ToRef   func(p interface{}) *RVal        // *T -> tree
	Deref   func(p interface{}) interface{}  // *T -> T (by value)
	Clone   func(p interface{}) interface{}  // *T -> pointer to a shallow copy (shares every pointee with the original)
	Fill    func(p interface{}, name string) // fill *T with symbolic contents
	Prefill func(p interface{}, name string) // like Fill, but by-value struct fields are left in their fresh state
	Walk    func(p interface{}, w *walker)   // visit every pointer / slice / string reachable from *T
}

const bufPad = 3

// codecCore: C01 C02 C04 C16 (+ hooks for C06/C14 via own()).
// boundParams: per-job shape bounds override the generated defaults.
func boundParams() {
	boundS = vrt.ParamOr("S", boundS)
	boundL = vrt.ParamOr("L", boundL)
	boundM = vrt.ParamOr("M", boundM)
	boundD = vrt.ParamOr("D", boundD)
	forceS = vrt.ParamOr("slen", -1)
	forceL = vrt.ParamOr("llen", -1)
	forceM = vrt.ParamOr("mlen", -1)
}

func codecCore(ops *typeOps) {
	boundParams()
	vrt.SetOwner("user")
	pv := ops.NewZero()
	fixedShape = vrt.ParamOr("shape", -1) // >= 0: one fixed shape (0 everything nil/absent/empty, 2 everything present with one element)
	userSpare = nil
	ops.Fill(pv, "v")
	fixedShape = -1
	spare := snapSpare()
	rv := ops.ToRef(pv)
	ref := refEncodeStruct(ops.St, rv, nil)
	n := len(ref)
	vrt.Observe("ref", ref)
	vrt.SetOwner("buf")
	buf := vrt.Bytes("buf", n+bufPad)
	snap := make([]byte, len(buf))
	copy(snap, buf)

	// ---- size, by pointer and by value (C04), value frozen (C16) ----
	vrt.SetOwner("impl")
	vrt.Freeze("user", true)
	vrt.Freeze("setup", true) // steady state: descriptors and caches built during registration are shared, read-only
	vrt.Freeze("init", true)
	vrt.Phase("encode")
	sz := EncodedSize(pv)
	vrt.Check(sz == n, "C04 EncodedSize(ptr) == reference length")
	szv := EncodedSize(ops.Deref(pv))
	vrt.Check(szv == n, "C04 EncodedSize(value) == reference length")

	// ---- encode into a sufficient buffer (C02, C04, C16) ----
	k, err := EncodeObject(buf, nil, pv)
	vrt.Check(err == nil, "C04 EncodeObject succeeds with len(buf) >= size")
	vrt.Check(k == n, "C04 EncodeObject returns EncodedSize")
	vrt.Check(sameEncoding(ops.St, buf[:n], ref), "C02 bytes equal reference encoding")
	vrt.Check(vrt.BytesEq(buf[n:], snap[n:]), "C16 buffer tail beyond n untouched")
	// again, by value, into a second buffer: same bytes (C16 repeatable)
	vrt.SetOwner("buf")
	buf2 := vrt.Bytes("buf2", n)
	vrt.SetOwner("impl")
	k2, err2 := EncodeObject(buf2, nil, ops.Deref(pv))
	vrt.Check(err2 == nil && k2 == n, "C04 EncodeObject(value) succeeds")
	vrt.Observe("enc2", buf2)
	vrt.Check(sameEncoding(ops.St, buf2, ref), "C16 re-encoding (by value) yields the same bytes")

	// ---- short buffers (C04): lengths 0, n/2, n-1; with cap==len and with spare capacity ----
	if n > 0 {
		for vi := 0; vi < 6; vi++ {
			ks := 0
			switch vi % 3 {
			case 1:
				ks = n - 1
			case 2:
				ks = n / 2
			}
			if vi%3 == 2 && (ks == 0 || ks == n-1) {
				continue
			}
			vrt.SetOwner("buf")
			big := vrt.Bytes("short", n+bufPad)
			bsnap := make([]byte, len(big))
			copy(bsnap, big)
			vrt.SetOwner("impl")
			var kk int
			var ee error
			if vi < 3 {
				kk, ee = EncodeObject(big[:ks:ks], nil, pv)
			} else {
				kk, ee = EncodeObject(big[:ks], nil, pv) // cap(buf) > len(buf)
			}
			vrt.Check(ee != nil, "C04 short buffer must yield an error")
			vrt.Check(kk == 0, "C04 short buffer must not report a (truncated) length")
			if vi < 3 {
				vrt.Check(vrt.BytesEq(big[ks:], bsnap[ks:]), "C04 no write past a short buffer (cap==len)")
			} else {
				vrt.Check(vrt.BytesEq(big[ks:], bsnap[ks:]), "C04 no write past a short buffer (spare capacity)")
			}
		}
		vrt.Reach("short")
	}
	vrt.Check(spareIntact(spare), "C16 spare capacity of the value's byte slices untouched by size/encode")
	vrt.Freeze("user", false)
	vrt.Observe("enc", buf[:n])

	// ---- decode (C01) ----
	vrt.Phase("decode")
	vrt.Freeze("buf", true)
	vrt.SetOwner("user")
	pw := ops.New()
	dst := ops.ToRef(pw)
	want := refRoundTripStruct(ops.St, rv, dst)
	vrt.SetOwner("dec")
	c, derr := DecodeObject(buf, pw) // trailing bytes after the top-level STOP are ignored
	vrt.Check(derr == nil, "C01 decode of own encoding succeeds")
	vrt.Check(c == n, "C01 decode consumes exactly the encoded length")
	got := ops.ToRef(pw)
	vrt.Check(refEqualStruct(ops.St, want, got), "C01 round trip value equal up to documented normalisations")
	vrt.Check(vrt.BytesEq(buf, append(append([]byte{}, ref...), snap[n:]...)), "C16 decode leaves the input untouched")
	if derr == nil {
		wk := &walker{buf: buf}
		ops.Walk(pw, wk)
	}
	vrt.Freeze("buf", false)
	vrt.Freeze("setup", false)
	vrt.Freeze("init", false)
	vrt.Observe("reenc", refEncodeStruct(ops.St, got, nil))
	vrt.Phase("")
	vrt.Reach("end")
}

// allocCore (C18): after the type has been used (setup: registration; then one size+encode of the same value, which
// warms the per-type pools), EncodedSize and EncodeObject with a pointer and a sufficient buffer execute no allocating
// operation, for every shape and all contents.
func allocCore(ops *typeOps) {
	boundParams()
	vrt.SetOwner("user")
	pv := ops.NewZero()
	fixedShape = vrt.ParamOr("shape", -1)
	ops.Fill(pv, "v")
	fixedShape = -1
	rv := ops.ToRef(pv)
	ref := refEncodeStruct(ops.St, rv, nil)
	n := len(ref)
	vrt.SetOwner("buf")
	buf := vrt.Bytes("buf", n+bufPad)
	vrt.SetOwner("impl")
	vrt.Freeze("user", true)
	vrt.Phase("encode")
	var iv interface{} = pv
	EncodedSize(iv)
	EncodeObject(buf, nil, iv)
	best := ^uint64(0)
	for r := 0; r < vrt.AllocReps(); r++ {
		vrt.AllocTrack()
		sz := EncodedSize(iv)
		k, err := EncodeObject(buf, nil, iv)
		a := vrt.AllocEvents()
		if a < best {
			best = a
		}
		vrt.Check(sz == n && k == n && err == nil, "C04 size and encode agree with the reference length")
	}
	vrt.Check(best == 0, "C18 EncodedSize/EncodeObject(ptr, sufficient buffer) allocate nothing after first use")
	vrt.Freeze("user", false)
	vrt.Phase("")
	vrt.Reach("end")
}

type VEnum int64

func rI(v int64) *RVal    { return &RVal{U: uint64(v)} }
func rU(u uint64) *RVal   { return &RVal{U: u} }
func rBool(b bool) *RVal  { return &RVal{U: vrt.B2U(b)} }
func rStr(s string) *RVal { return &RVal{B: []byte(s)} }
func rBin(b []byte) *RVal { return &RVal{B: b, Nil: b == nil} }

// fillUnknown: contents of an _unknownFields holder: nil, or one well-formed
// unknown field (I32, id 30000) with a symbolic value.
// userSpare: full-capacity views of the byte slices inside the user's value. Slices of a caller's value may have spare
// capacity (a prefix of a larger buffer, a slice built with append): the bytes between len and cap are the caller's
// memory too and must survive EncodedSize / EncodeObject (C16).
var userSpare [][]byte

// userBytes: n symbolic bytes with two further symbolic bytes of spare capacity behind them.
func userBytes(name string, n int) []byte {
	b := make([]byte, n+2)
	copy(b, vrt.Bytes(name, n))
	copy(b[n:], vrt.Bytes(name+"+", 2))
	userSpare = append(userSpare, b)
	return b[:n]
}

func snapSpare() [][]byte {
	out := make([][]byte, len(userSpare))
	for i, b := range userSpare {
		out[i] = append([]byte{}, b...)
	}
	return out
}

func spareIntact(snap [][]byte) bool {
	ok := true
	for i, b := range userSpare {
		if !vrt.BytesEq(b, snap[i]) {
			ok = false
		}
	}
	return ok
}

func fillUnknown(name string) []byte {
	if vrt.Choice(name+"#", 2) == 0 {
		return nil
	}
	b := userBytes(name, 7)
	b[0], b[1], b[2] = 8, 0x75, 0x30
	return b
}

// prefillUnknown: holder contents left over from an earlier decode into the same destination (24 arbitrary bytes, spare
// capacity): the next decode must replace them, not extend them.
func prefillUnknown(name string) []byte {
	b := make([]byte, 24, 64)
	copy(b, vrt.Bytes(name, 24))
	return b
}

// bytesCore: arbitrary input bytes (C05, C03(b), C09, C11 on the decode side).
func bytesCore(ops *typeOps) {
	N := vrt.Param("N")
	vrt.SetOwner("buf")
	b := vrt.Bytes("in", N)
	vrt.SetOwner("user")
	pw := ops.New()
	dst := ops.ToRef(pw)
	vrt.Freeze("buf", true)
	vrt.SetOwner("dec")
	vrt.Phase("decode")
	vrt.ResetAllocBytes()
	s0 := vrt.Steps()
	n, err := DecodeObject(b, pw)
	steps := vrt.Steps() - s0
	alloc := vrt.AllocBytes()
	vrt.Phase("")
	var d refDec
	rn, want, rok := refDecodeStruct(ops.St, b, dst, &d, 1<<20)
	if !d.OkOpen {
		vrt.Check((err == nil) == rok, "C05 DecodeObject succeeds exactly when the input begins with a well-formed message")
	}
	if rok && err == nil {
		vrt.Check(n == rn, "C03 returns the number of bytes up to and including the top-level STOP")
		if !d.ValueOpen {
			vrt.Check(refEqualStruct(ops.St, want, ops.ToRef(pw)), "C03 decoded value equals the reference decoder's")
		}
		vrt.Reach("ok")
	} else if !rok && err != nil {
		if d.Missing != "" && !d.OkOpen {
			// (in the open region - an empty container announcing a non-Thrift element type code was skipped - frugal may
			// reject the message for that reason instead; which error is reported is then open as well)
			vrt.Check(vrt.ErrClass(err) == 101, "C09 missing required field is an INVALID_DATA protocol error")
			vrt.Check(vrt.ErrMsgContains(err, d.Missing), "C09 error names the missing required field")
		}
		vrt.Reach("err")
	}
	vrt.Check(steps <= 6000+1500*uint64(N), "C05 decode work is proportional to the input length")
	vrt.Check(alloc <= 4096+256*uint64(N), "C05 memory requested is proportional to the input length")
	vrt.Check(vrt.BytesEq(b, b), "C16 input untouched (M-frozen monitors stores)")
	vrt.Freeze("buf", false)
	vrt.Reach("end")
}

// ---- ownership walk (C06, C14) ----

type extent struct {
	lo, hi uintptr
	what   string
}

type walker struct {
	prefilled bool // destination had prior contents: untouched fields legitimately hold the caller's memory
	buf       []byte
	exts      []extent
	views     []extent // nocopy views as offsets into buf
}

func (w *walker) bufRange() (uintptr, uintptr) {
	if len(w.buf) == 0 {
		return 0, 0
	}
	lo := uintptr(unsafe.Pointer(unsafe.SliceData(w.buf)))
	return lo, lo + uintptr(cap(w.buf))
}

// region: one piece of memory the decoder created: [p, p+nbytes) aligned for its element type,
// owned by this decode, typed for GC when it holds pointers, disjoint from every other piece
// and from the input buffer.
func (w *walker) region(p unsafe.Pointer, nbytes, align, elemSize int, hasPtr bool, what string, emptyOK bool) {
	if p == nil {
		return
	}
	a := uintptr(p)
	if nbytes == 0 {
		// empty slices may point to the shared zero-size sentinel
		vrt.Check(a%uintptr(align) == 0 || emptyOK, "C06 aligned for its element type")
		return
	}
	vrt.Check(a%uintptr(align) == 0, "C06 aligned for its element type")
	if vrt.IsStatic(p) {
		return // immutable literal (a declared default), not memory created for a transmitted value
	}
	blo, bhi := w.bufRange()
	vrt.Check(a+uintptr(nbytes) <= blo || a >= bhi, "C06 does not overlap the input buffer")
	owned := vrt.IsOwner(p, "dec+")
	vrt.Check(owned, "C06 memory belongs to this decode")
	if !owned {
		return // (ownership is an engine-side fact; the allocation-level checks below are only meaningful for owned memory)
	}
	vrt.Check(vrt.BlockOff(p)+uint64(nbytes) <= vrt.BlockSize(p) || !vrt.Symbolic(), "C06 extent lies inside its allocation")
	if hasPtr {
		vrt.Check(!vrt.BlockNoScan(p) || !vrt.Symbolic(), "C06 pointer-bearing memory is visible to the GC (typed allocation)")
		es := vrt.BlockElemSize(p)
		vrt.Check(es == 0 || es == uint64(elemSize) || !vrt.Symbolic(), "C06 typed allocation has the element type of its contents")
	}
	for _, e := range w.exts {
		vrt.Check(a+uintptr(nbytes) <= e.lo || a >= e.hi, "C06 overlaps no other piece of decoded memory")
	}
	w.exts = append(w.exts, extent{a, a + uintptr(nbytes), what})
}

func (w *walker) str(s string, what string, nocopy bool) {
	if len(s) == 0 {
		p := unsafe.Pointer(unsafe.StringData(s))
		blo, bhi := w.bufRange()
		vrt.Check(p == nil || uintptr(p) < blo || uintptr(p) >= bhi, "C14 zero-length value does not reference the input buffer")
		return
	}
	if nocopy && !w.prefilled {
		w.view(unsafe.Pointer(unsafe.StringData(s)), len(s), len(s), what)
		return
	}
	if nocopy {
		return // untouched prior contents can not be told from transmitted values here
	}
	w.region(unsafe.Pointer(unsafe.StringData(s)), len(s), 1, 1, false, what, false)
}

func (w *walker) bin(b []byte, what string, nocopy bool) {
	if b == nil {
		return
	}
	hdr := (*[3]uintptr)(unsafe.Pointer(&b)) // read the header words: the compiler assumes len <= cap and would fold the comparison
	vrt.Check(hdr[1] <= hdr[2], "C06 decoded slice is well-formed (len <= cap)")
	if len(b) == 0 {
		p := unsafe.Pointer(unsafe.SliceData(b))
		blo, bhi := w.bufRange()
		vrt.Check(uintptr(p) < blo || uintptr(p) >= bhi, "C14 zero-length value does not reference the input buffer")
		return
	}
	if nocopy && !w.prefilled {
		w.view(unsafe.Pointer(unsafe.SliceData(b)), len(b), cap(b), what)
		return
	}
	if nocopy {
		return
	}
	w.region(unsafe.Pointer(unsafe.SliceData(b)), cap(b), 1, 1, false, what, false)
}

// view: a nocopy value must lie inside the input buffer with no spare capacity; that it is exactly the
// value's bytes follows from the content comparison with the reference decoder plus C03's consumed length.
func (w *walker) view(p unsafe.Pointer, n, c int, what string) {
	blo, _ := w.bufRange()
	a := uintptr(p)
	vrt.Check(a >= blo && a+uintptr(n) <= blo+uintptr(len(w.buf)), "C14 nocopy value is a view of the input buffer")
	vrt.Check(c == n, "C14 nocopy view has no spare capacity")
	w.views = append(w.views, extent{a - blo, a - blo + uintptr(n), what})
}

// fixedShape >= 0 replaces every shape choice of the generated fill functions by min(fixedShape, n-1).
var fixedShape = -1

func pick(name string, n int) int {
	if fixedShape >= 0 {
		if fixedShape < n {
			return fixedShape
		}
		return n - 1
	}
	return vrt.Choice(name, n)
}

// forceS / forceL >= 0 fix every string(binary) / list length (threshold shapes: concrete length, symbolic contents).
var forceS, forceL, forceM = -1, -1, -1

func mapLen(name string) int {
	if forceM >= 0 {
		return forceM + 1
	}
	return pick(name+"#", boundM+2)
}

// idxKey: distinct concrete string keys for large maps.
func idxKey(i int) string {
	return string([]byte{'k', byte('0' + i/100%10), byte('0' + i/10%10), byte('0' + i%10)})
}

func strLen(name string) int {
	if forceS >= 0 {
		return forceS
	}
	return pick(name+"#", boundS+1)
}

func binLen(name string) int {
	if forceS >= 0 {
		return forceS + 1
	}
	return pick(name+"#", boundS+2)
}

func listLen(name string) int {
	if forceL >= 0 {
		return forceL + 1
	}
	return pick(name+"#", boundL+2)
}

func withBounds(sb, lb, mb int, f func()) {
	s0, l0, m0 := boundS, boundL, boundM
	boundS, boundL, boundM = sb, lb, mb
	f()
	boundS, boundL, boundM = s0, l0, m0
}

// decmsgCore: a well-formed message written under schema W (any field order, trailing bytes) is
// decoded into a (possibly pre-filled) destination of type T: C03 C09 C10 C11 C14 C06.
func decmsgCore(w, t *typeOps) { decmsgWith(w, t, nil) }

// histCore (C07): the decode under test is preceded by another call that leaves scratch state in the pools
// (or by pools havocked to arbitrary contents); its outcome must still equal the stateless reference.
func histCore(p, w, t *typeOps) {
	decmsgWith(w, t, func() {
		vrt.Phase("pred")
		switch vrt.Choice("pred", 5) {
		case 0:
			ireflect.VerifHavocPools()
		case 1: // successful decode of a message of type p
			vrt.SetOwner("user")
			pv := p.NewZero()
			fixedShape = 2
			p.Fill(pv, "pred")
			fixedShape = -1
			msg := refEncodeStruct(p.St, p.ToRef(pv), nil)
			pw := p.New()
			vrt.SetOwner("dec")
			_, err := DecodeObject(msg, pw)
			vrt.Check(err == nil, "C07 predecessor decode succeeds")
		case 2: // decode failing midway: message of type p truncated
			vrt.SetOwner("user")
			pv := p.NewZero()
			fixedShape = 2
			p.Fill(pv, "pred")
			fixedShape = -1
			msg := refEncodeStruct(p.St, p.ToRef(pv), nil)
			cut := vrt.Choice("cut", len(msg))
			pw := p.New()
			vrt.SetOwner("dec")
			_, err := DecodeObject(msg[:cut], pw)
			vrt.Check(err != nil, "C05 truncated predecessor message is an error")
		case 3: // size + encode by value (pooled argument copies)
			vrt.SetOwner("user")
			pv := p.NewZero()
			fixedShape = 2
			p.Fill(pv, "pred")
			fixedShape = -1
			vrt.SetOwner("impl")
			n := EncodedSize(p.Deref(pv))
			b := make([]byte, n)
			_, err := EncodeObject(b, nil, p.Deref(pv))
			vrt.Check(err == nil, "C07 predecessor encode succeeds")
		case 4: // decode of the tested type itself with every field set
			vrt.SetOwner("user")
			pv := t.NewZero()
			fixedShape = 2
			t.Fill(pv, "pred")
			fixedShape = -1
			msg := refEncodeStruct(t.St, t.ToRef(pv), nil)
			pw := t.New()
			vrt.SetOwner("dec")
			_, err := DecodeObject(msg, pw)
			vrt.Check(err == nil, "C07 predecessor decode succeeds")
		}
		vrt.Phase("")
	})
}

func decmsgWith(w, t *typeOps, pred func()) {
	boundParams()
	if pred != nil {
		pred()
	}
	vrt.SetOwner("user")
	pm := w.NewZero()
	w.Fill(pm, "m")
	rv := w.ToRef(pm)
	encOrder = vrt.Choice("order", vrt.Param("orders"))
	encDup = vrt.ParamOr("dup", 0)
	msg := refEncodeStruct(w.St, rv, nil)
	encOrder, encDup = 0, 0
	trail := 0
	if pred == nil && vrt.ParamOr("plain", 0) == 0 {
		trail = vrt.Choice("trail", 2) * 2
	}
	vrt.SetOwner("buf")
	buf := make([]byte, 0, len(msg)+trail)
	buf = append(buf, msg...)
	buf = append(buf, vrt.Bytes("trail", trail)...)
	vrt.Observe("msg", buf)
	vrt.SetOwner("user")
	pw := t.New()
	prefilled := false
	if pred == nil && vrt.ParamOr("plain", 0) == 0 && vrt.Choice("prefill", 2) == 1 {
		prefilled = true
		// every field pre-set: pointers non-nil, containers with one element, symbolic contents
		fixedShape = 2
		t.Prefill(pw, "dst")
		fixedShape = -1
	}
	dst := t.ToRef(pw)
	// a shallow copy of the destination as the caller handed it over: it keeps the OLD pointers, slices and maps, so
	// whatever the decode writes through them (instead of into the destination's own fields) shows up here
	var oldp interface{}
	var oldRef *RVal
	if prefilled {
		oldp = t.Clone(pw)
		oldRef = t.ToRef(oldp)
	}
	var d refDec
	rn, want, rok := refDecodeStruct(t.St, buf, dst, &d, 1<<20)
	vrt.Freeze("buf", true)
	vrt.Freeze("user", true)
	vrt.Freeze("setup", true)
	vrt.Freeze("init", true)
	vrt.FreezePtr(unsafe.Pointer(reflectDataPtr(pw)), false) // the destination struct itself is written
	vrt.SetOwner("dec")
	vrt.Phase("decode")
	n, err := DecodeObject(buf, pw)
	vrt.Phase("")
	vrt.Freeze("user", false)
	vrt.Freeze("setup", false)
	vrt.Freeze("init", false)
	vrt.Check((err == nil) == rok, "C03 a well-formed message decodes successfully (and only then)")
	if rok && err == nil {
		vrt.Check(rn == len(msg), "harness: reference consumed the whole message")
		vrt.Check(n == rn, "C03 returns the number of bytes up to and including the top-level STOP")
		if !d.ValueOpen {
			got := t.ToRef(pw)
			vrt.Check(refEqualStruct(t.St, want, got), "C03 every transmitted field is set to the transmitted value, every other field untouched")
			vrt.Observe("got", refEncodeStruct(t.St, got, nil))
		}
		if prefilled {
			vrt.Check(refEqualStruct(t.St, oldRef, t.ToRef(oldp)), "C03 memory the destination's previous contents point to is left untouched (new values get new memory)")
		}
		wk := &walker{buf: buf, prefilled: prefilled}
		t.Walk(pw, wk)
		vrt.Reach("ok")
	} else if !rok && err != nil {
		if d.Missing != "" {
			vrt.Check(vrt.ErrClass(err) == 101, "C09 missing required field is an INVALID_DATA protocol error")
			vrt.Check(vrt.ErrMsgContains(err, d.Missing), "C09 error names the missing required field")
			vrt.Reach("missing")
		}
		vrt.Reach("err")
	}
	vrt.Freeze("buf", false)
	vrt.Reach("end")
}

// reflectDataPtr: address of the struct a *T interface value points to.
func reflectDataPtr(p interface{}) unsafe.Pointer {
	type eface struct{ t, d unsafe.Pointer }
	return (*eface)(unsafe.Pointer(&p)).d
}

// hopCore (C11): a message of the newer schema W passes through an intermediary that only knows T
// (with unknown-field holders): decode into T, re-encode, and a W reader must get the original value back.
func hopCore(w, t *typeOps) {
	boundParams()
	vrt.SetOwner("user")
	pm := w.NewZero()
	w.Fill(pm, "m")
	rv := w.ToRef(pm)
	msg := refEncodeStruct(w.St, rv, nil)
	vrt.SetOwner("buf")
	buf := append([]byte{}, msg...)
	vrt.SetOwner("user")
	pt := t.New()
	vrt.SetOwner("dec")
	vrt.Phase("decode")
	n, err := DecodeObject(buf, pt)
	vrt.Check(err == nil && n == len(msg), "C11 intermediary decodes the newer message")
	// the holder keeps bytes of the input; overwrite the input to show the holder owns a copy
	for i := range buf {
		buf[i] = 0xEE
	}
	vrt.Phase("encode")
	vrt.SetOwner("impl")
	sz := EncodedSize(pt)
	out := make([]byte, sz)
	k, err2 := EncodeObject(out, nil, pt)
	vrt.Phase("")
	vrt.Check(err2 == nil && k == sz, "C11 EncodedSize counts the retained unknown bytes")
	var d refDec
	rn, back, rok := refDecodeStruct(w.St, out, newStructDst(w.St), &d, 1<<20)
	vrt.Check(rok && rn == sz, "C11 re-encoded message is well-formed under the newer schema")
	if rok {
		want := refRoundTripStruct(w.St, rv, newStructDst(w.St))
		vrt.Check(refEqualStruct(w.St, want, back), "C11 nothing is lost through decode and re-encode by an older schema")
	}
	vrt.Observe("out", out)
	vrt.Reach("end")
}

// dec2Core (C06 histories, C07): decode message 1, overwrite the input, decode message 2 with the same
// pooled decoder state, then message 1's object must be unchanged and all memory of both objects disjoint.
func dec2Core(a, b *typeOps) {
	boundParams()
	vrt.SetOwner("user")
	p1 := a.NewZero()
	a.Fill(p1, "m1")
	r1 := a.ToRef(p1)
	msg1 := refEncodeStruct(a.St, r1, nil)
	p2 := b.NewZero()
	b.Fill(p2, "m2")
	r2 := b.ToRef(p2)
	msg2 := refEncodeStruct(b.St, r2, nil)
	vrt.SetOwner("buf")
	buf1 := append([]byte{}, msg1...)
	buf2 := append([]byte{}, msg2...)
	vrt.SetOwner("user")
	w1 := a.New()
	want1 := refRoundTripStruct(a.St, r1, a.ToRef(w1))
	w2 := b.New()
	want2 := refRoundTripStruct(b.St, r2, b.ToRef(w2))
	vrt.SetOwner("dec")
	vrt.Phase("decode")
	n1, e1 := DecodeObject(buf1, w1)
	vrt.Check(e1 == nil && n1 == len(msg1), "C01 decode of message 1 succeeds")
	// the caller reuses / overwrites the input buffer
	vrt.SetOwner("buf")
	ow := vrt.Bytes("overwrite", len(buf1))
	copy(buf1, ow)
	vrt.SetOwner("dec")
	if fk := vrt.ParamOr("fail", 0); fk != 0 && len(msg1) > 1 {
		// a failing call in between (truncated copy of message 1, decoded into a destination that is dropped): whatever
		// the failed call did to pooled state must not disturb the value kept from the first call or the next result
		cut := len(msg1) - 1
		if fk == 2 {
			cut = len(msg1) / 2
		}
		vrt.SetOwner("buf")
		bad := append([]byte{}, msg1[:cut]...)
		vrt.SetOwner("dec")
		_, ef := DecodeObject(bad, a.New())
		vrt.Check(ef != nil, "C05 a truncated message is rejected")
	}
	n2, e2 := DecodeObject(buf2, w2)
	vrt.Phase("")
	vrt.Check(e2 == nil && n2 == len(msg2), "C07 decode of message 2 after message 1 succeeds")
	vrt.Check(refEqualStruct(a.St, want1, a.ToRef(w1)), "C06 decoded value unchanged by buffer overwrite and a later decode")
	vrt.Check(refEqualStruct(b.St, want2, b.ToRef(w2)), "C07 second decode result independent of the first")
	wk := &walker{buf: buf1}
	a.Walk(w1, wk)
	wk.buf = buf2
	b.Walk(w2, wk)
	vrt.Reach("end")
}

// mutmsgCore (C05): every truncation and every single-byte / 32-bit-word corruption of a well-formed message
// (concrete structure, symbolic contents): DecodeObject must not panic or fault, must succeed exactly when the
// reference decoder finds a well-formed message, and must not request memory out of proportion.
func mutmsgCore(w, t *typeOps) {
	boundParams()
	vrt.SetOwner("user")
	pm := w.NewZero()
	if vrt.ParamOr("full", 1) == 1 {
		fixedShape = 2
		w.Fill(pm, "m")
		fixedShape = -1
	} else {
		w.Fill(pm, "m")
	}
	encLenPos = nil
	msg := refEncodeStruct(w.St, w.ToRef(pm), nil)
	lenPos := encLenPos
	vrt.SetOwner("buf")
	buf := append([]byte{}, msg...)
	switch vrt.Param("mut") {
	case 0: // truncation: every proper prefix
		buf = buf[:vrt.Choice("cut", len(buf))]
		vrt.Reach("cut")
	case 1: // one byte replaced by an arbitrary byte
		pos := vrt.Choice("pos", len(buf))
		buf[pos] = vrt.U8("byte")
		vrt.Reach("byte")
	case 2: // a length / count field replaced by an arbitrary 32-bit value (negative, huge, off by one, ...)
		if len(lenPos) == 0 {
			vrt.Assume(false)
		}
		pos := lenPos[vrt.Choice("lenfield", len(lenPos))]
		v := vrt.U32("word")
		buf[pos], buf[pos+1], buf[pos+2], buf[pos+3] = byte(v>>24), byte(v>>16), byte(v>>8), byte(v)
		vrt.Reach("word")
	}
	vrt.Observe("in", buf)
	vrt.SetOwner("user")
	pw := t.New()
	dst := t.ToRef(pw)
	vrt.Freeze("buf", true)
	vrt.SetOwner("dec")
	vrt.Phase("decode")
	vrt.ResetAllocBytes()
	n, err := DecodeObject(buf, pw)
	alloc := vrt.AllocBytes()
	vrt.Phase("")
	var d refDec
	rn, want, rok := refDecodeStruct(t.St, buf, dst, &d, 1<<20)
	if !d.OkOpen {
		vrt.Check((err == nil) == rok, "C05 DecodeObject succeeds exactly when the input begins with a well-formed message")
	}
	if rok && err == nil {
		vrt.Check(n == rn, "C03 returns the number of bytes up to and including the top-level STOP")
		if !d.ValueOpen {
			vrt.Check(refEqualStruct(t.St, want, t.ToRef(pw)), "C03 decoded value equals the reference decoder's")
		}
	}
	vrt.Check(alloc <= 4096+256*uint64(len(buf)), "C05 memory requested is proportional to the input length")
	vrt.Freeze("buf", false)
	vrt.Reach("end")
}

// sameEncoding: a equals b "up to map-entry order". In the engine maps iterate in insertion order, so the bytes are
// compared exactly (one bit-vector equality). Natively Go randomises iteration order per range statement, so the
// native replay compares the two encodings by decoding both with the reference decoder (maps as entry sets).
func sameEncoding(st *RStruct, a, b []byte) bool {
	if vrt.Symbolic() || vrt.BytesEq(a, b) {
		return vrt.BytesEq(a, b)
	}
	if len(a) != len(b) {
		return false
	}
	var d1, d2 refDec
	n1, v1, ok1 := refDecodeStruct(st, a, newStructDst(st), &d1, 1<<20)
	n2, v2, ok2 := refDecodeStruct(st, b, newStructDst(st), &d2, 1<<20)
	return ok1 && ok2 && n1 == len(a) && n2 == len(b) && refEqualStruct(st, v1, v2) && refEqualStruct(st, v2, v1)
}
