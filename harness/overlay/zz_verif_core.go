package frugal

// Harness cores shared by all generated per-type harnesses. Public API only:
// EncodedSize / EncodeObject / DecodeObject.

import (
	"github.com/cloudwego/frugal/internal/vrt"
)

// typeOps is what the generator provides for a corpus type T.
type typeOps struct {
	St      *RStruct
	New     func() interface{}               // new(T), default-initialised when T declares defaults
	NewZero func() interface{}               // new(T) without defaults
	ToRef   func(p interface{}) *RVal        // *T -> tree
	Deref   func(p interface{}) interface{}  // *T -> T (by value)
	Fill    func(p interface{}, name string) // fill *T with symbolic contents
}

const bufPad = 3

// codecCore: C01 C02 C04 C16 (+ hooks for C06/C14 via own()).
func codecCore(ops *typeOps) {
	vrt.SetOwner("user")
	pv := ops.NewZero()
	ops.Fill(pv, "v")
	rv := ops.ToRef(pv)
	ref := refEncodeStruct(ops.St, rv, nil)
	n := len(ref)
	vrt.Observe("ref", ref)
	vrt.SetOwner("buf")
	buf := vrt.Bytes("buf", n+bufPad)
	snap := make([]byte, len(buf))
	copy(snap, buf)

	// ---- size, by pointer and by value (C04), value frozen (C16) ----
	vrt.SetOwner("impl")
	vrt.Freeze("user", true)
	vrt.Phase("encode")
	sz := EncodedSize(pv)
	vrt.Check(sz == n, "C04 EncodedSize(ptr) == reference length")
	szv := EncodedSize(ops.Deref(pv))
	vrt.Check(szv == n, "C04 EncodedSize(value) == reference length")

	// ---- encode into a sufficient buffer (C02, C04, C16) ----
	k, err := EncodeObject(buf, nil, pv)
	vrt.Check(err == nil, "C04 EncodeObject succeeds with len(buf) >= size")
	vrt.Check(k == n, "C04 EncodeObject returns EncodedSize")
	vrt.Check(vrt.BytesEq(buf[:n], ref), "C02 bytes equal reference encoding")
	vrt.Check(vrt.BytesEq(buf[n:], snap[n:]), "C16 buffer tail beyond n untouched")
	// again, by value, into a second buffer: same bytes (C16 repeatable)
	vrt.SetOwner("buf")
	buf2 := vrt.Bytes("buf2", n)
	vrt.SetOwner("impl")
	k2, err2 := EncodeObject(buf2, nil, ops.Deref(pv))
	vrt.Check(err2 == nil && k2 == n, "C04 EncodeObject(value) succeeds")
	vrt.Check(vrt.BytesEq(buf2, ref), "C16 re-encoding (by value) yields the same bytes")

	// ---- short buffers (C04): lengths 0, n/2, n-1; with cap==len and with spare capacity ----
	if n > 0 {
		for vi := 0; vi < 6; vi++ {
			ks := 0
			switch vi % 3 {
			case 1:
				ks = n - 1
			case 2:
				ks = n / 2
			}
			if vi%3 == 2 && (ks == 0 || ks == n-1) {
				continue
			}
			vrt.SetOwner("buf")
			big := vrt.Bytes("short", n+bufPad)
			bsnap := make([]byte, len(big))
			copy(bsnap, big)
			vrt.SetOwner("impl")
			var kk int
			var ee error
			if vi < 3 {
				kk, ee = EncodeObject(big[:ks:ks], nil, pv)
			} else {
				kk, ee = EncodeObject(big[:ks], nil, pv) // cap(buf) > len(buf)
			}
			vrt.Check(ee != nil, "C04 short buffer must yield an error")
			vrt.Check(kk == 0, "C04 short buffer must not report a (truncated) length")
			if vi < 3 {
				vrt.Check(vrt.BytesEq(big[ks:], bsnap[ks:]), "C04 no write past a short buffer (cap==len)")
			} else {
				vrt.Check(vrt.BytesEq(big[ks:], bsnap[ks:]), "C04 no write past a short buffer (spare capacity)")
			}
		}
		vrt.Reach("short")
	}
	vrt.Freeze("user", false)
	vrt.Observe("enc", buf[:n])

	// ---- decode (C01) ----
	vrt.Phase("decode")
	vrt.Freeze("buf", true)
	pw := ops.New()
	dst := ops.ToRef(pw)
	want := refRoundTripStruct(ops.St, rv, dst)
	vrt.SetOwner("dec")
	c, derr := DecodeObject(buf, pw) // trailing bytes after the top-level STOP are ignored
	vrt.Check(derr == nil, "C01 decode of own encoding succeeds")
	vrt.Check(c == n, "C01 decode consumes exactly the encoded length")
	got := ops.ToRef(pw)
	vrt.Check(refEqualStruct(ops.St, want, got), "C01 round trip value equal up to documented normalisations")
	vrt.Check(vrt.BytesEq(buf, append(append([]byte{}, ref...), snap[n:]...)), "C16 decode leaves the input untouched")
	vrt.Freeze("buf", false)
	vrt.Observe("reenc", refEncodeStruct(ops.St, got, nil))
	vrt.Phase("")
	vrt.Reach("end")
}

type VEnum int64

func rI(v int64) *RVal    { return &RVal{U: uint64(v)} }
func rU(u uint64) *RVal   { return &RVal{U: u} }
func rBool(b bool) *RVal  { return &RVal{U: vrt.B2U(b)} }
func rStr(s string) *RVal { return &RVal{B: []byte(s)} }
func rBin(b []byte) *RVal { return &RVal{B: b, Nil: b == nil} }

// fillUnknown: contents of an _unknownFields holder: nil, or one well-formed
// unknown field (I32, id 30000) with a symbolic value.
func fillUnknown(name string) []byte {
	if vrt.Choice(name+"#", 2) == 0 {
		return nil
	}
	b := []byte{8, 0x75, 0x30}
	return append(b, vrt.Bytes(name, 4)...)
}

// bytesCore: arbitrary input bytes (C05, C03(b), C09, C11 on the decode side).
func bytesCore(ops *typeOps) {
	N := vrt.Param("N")
	vrt.SetOwner("buf")
	b := vrt.Bytes("in", N)
	vrt.SetOwner("user")
	pw := ops.New()
	dst := ops.ToRef(pw)
	vrt.Freeze("buf", true)
	vrt.SetOwner("dec")
	vrt.Phase("decode")
	vrt.ResetAllocBytes()
	s0 := vrt.Steps()
	n, err := DecodeObject(b, pw)
	steps := vrt.Steps() - s0
	alloc := vrt.AllocBytes()
	vrt.Phase("")
	var d refDec
	rn, want, rok := refDecodeStruct(ops.St, b, dst, &d, 1<<20)
	vrt.Check((err == nil) == rok, "C05 DecodeObject succeeds exactly when the input begins with a well-formed message")
	if rok && err == nil {
		vrt.Check(n == rn, "C03 returns the number of bytes up to and including the top-level STOP")
		if !d.ValueOpen {
			vrt.Check(refEqualStruct(ops.St, want, ops.ToRef(pw)), "C03 decoded value equals the reference decoder's")
		}
		vrt.Reach("ok")
	} else if !rok && err != nil {
		if d.Missing != "" {
			vrt.Check(vrt.ErrClass(err) == 101, "C09 missing required field is an INVALID_DATA protocol error")
			vrt.Check(vrt.ErrMsgContains(err, d.Missing), "C09 error names the missing required field")
		}
		vrt.Reach("err")
	}
	vrt.Check(steps <= 6000+1500*uint64(N), "C05 decode work is proportional to the input length")
	vrt.Check(alloc <= 4096+256*uint64(N), "C05 memory requested is proportional to the input length")
	vrt.Check(vrt.BytesEq(b, b), "C16 input untouched (M-frozen monitors stores)")
	vrt.Freeze("buf", false)
	vrt.Reach("end")
}
