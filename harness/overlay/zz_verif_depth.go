package frugal

// C15: nesting depth. Deep messages are built concretely (leaf value symbolic) for a recursive type and
// for a reader that has to skip the whole nest as an unknown field.

import "github.com/cloudwego/frugal/internal/vrt"

// deepMsg: a DpRec message nested d levels through the given position:
// 0 struct field (2: *DpRec), 1 list element (3: list<DpRec>), 2 map value (4: map<i32:DpRec>), 3 map key (5: map<DpRec:i32>),
// 4 mixture (cycling through 0..3).
func deepMsg2(d int, via int, leaf uint32) []byte { return deepMsgWide(d, via, leaf, 0) }

// deepMsgWide: as deepMsg2, but every level first carries `wide` sibling fields of variable size (empty list<DpRec> in
// field 3 / empty map<i32:DpRec> in field 4, alternating) before the field that continues the nest: the depth of a
// message is its nesting, however many fields the structs on the way down have.
func deepMsgWide(d int, via int, leaf uint32, wide int) []byte {
	var sib []byte
	for w := 0; w < wide; w++ {
		if w%2 == 0 {
			sib = append(sib, 15, 0, 3, 12, 0, 0, 0, 0)
		} else {
			sib = append(sib, 13, 0, 4, 8, 12, 0, 0, 0, 0)
		}
	}
	pres := make([][]byte, 0, d)
	sufs := make([][]byte, 0, d)
	for l := 0; l < d; l++ {
		v := via
		if via == 4 {
			v = l % 4
		}
		switch v {
		case 0:
			pres = append(pres, append(append([]byte{}, sib...), 12, 0, 2))
			sufs = append(sufs, []byte{0})
		case 1:
			pres = append(pres, append(append([]byte{}, sib...), 15, 0, 3, 12, 0, 0, 0, 1))
			sufs = append(sufs, []byte{0})
		case 2:
			pres = append(pres, append(append([]byte{}, sib...), 13, 0, 4, 8, 12, 0, 0, 0, 1, 0, 0, 0, byte(l)))
			sufs = append(sufs, []byte{0})
		default:
			pres = append(pres, append(append([]byte{}, sib...), 13, 0, 5, 12, 8, 0, 0, 0, 1))
			sufs = append(sufs, []byte{0, 0, 0, byte(l), 0})
		}
	}
	var out []byte
	for _, p := range pres {
		out = append(out, p...)
	}
	out = append(out, sib...)
	out = append(out, 8, 0, 1, byte(leaf>>24), byte(leaf>>16), byte(leaf>>8), byte(leaf), 0)
	for i := len(sufs) - 1; i >= 0; i-- {
		out = append(out, sufs[i]...)
	}
	return out
}

const classDepth = 106 // thrift.DEPTH_LIMIT

// nestLevels: every struct, list, set or map on the way down is one level of nesting.
func nestLevels(d, via int) int {
	n := 0
	for l := 0; l < d; l++ {
		v := via
		if via == 4 {
			v = l % 4
		}
		if v == 0 {
			n++
		} else {
			n += 2
		}
	}
	return n
}

// VerifDepthKnown: nesting in known-field position. Parameters: d (levels), via (position kind).
func VerifDepthKnown() {
	d, via := vrt.Param("d"), vrt.Param("via")
	leaf := vrt.U32("leaf")
	msg := deepMsgWide(d, via, leaf, vrt.ParamOr("wide", 0))
	pw := new(DpRec)
	vrt.SetOwner("dec")
	vrt.Phase("decode")
	var n int
	var err error
	r := vrt.Catch(func() { n, err = DecodeObject(msg, pw) })
	vrt.Phase("")
	vrt.Check(r == 0, "C15 deep input never panics or faults")
	cls := vrt.ErrClass(err)
	lv := nestLevels(d, via) + 1 // + the top-level struct
	switch {
	case lv <= 48:
		vrt.Check(err == nil && n == len(msg), "C15 messages nested no deeper than 48 levels are accepted")
		// the leaf arrives intact at the bottom
		p := pw
		for l := 0; l < d && p != nil; l++ {
			v := via
			if via == 4 {
				v = l % 4
			}
			switch v {
			case 0:
				p = p.Next
			case 1:
				if len(p.Kids) == 1 {
					p = &p.Kids[0]
				} else {
					p = nil
				}
			case 2:
				var q *DpRec
				for _, x := range p.ByVal {
					y := x
					q = &y
				}
				p = q
			default:
				var q *DpRec
				for k := range p.ByKey {
					q = k
				}
				p = q
			}
		}
		vrt.Check(p != nil && p.V == int32(leaf), "C15 the innermost value is decoded")
		vrt.Reach("accepted")
	case lv > 1023:
		vrt.Check(cls == classDepth, "C15 nesting beyond the depth bound is a depth-limit protocol error")
		vrt.Reach("rejected")
	default:
		vrt.Check(err == nil || cls == classDepth, "C15 between 49 and 1023 levels: success or depth-limit error only")
		vrt.Reach("between")
	}
	vrt.Reach("end")
}

// VerifDepthUnknown: the nest sits in a field the reader does not know (skipper's own limit of 64).
func VerifDepthUnknown() {
	d, via := vrt.Param("d"), vrt.Param("via")
	leaf := vrt.U32("leaf")
	inner := deepMsg2(d-1, via, leaf)
	msg := append([]byte{12, 0x03, 0x85}, inner...) // unknown field 901 of type STRUCT
	msg = append(msg, 0)
	pw := new(DpSkip)
	vrt.SetOwner("dec")
	vrt.Phase("decode")
	var n int
	var err error
	r := vrt.Catch(func() { n, err = DecodeObject(msg, pw) })
	vrt.Phase("")
	vrt.Check(r == 0, "C15 deep input never panics or faults")
	lv := nestLevels(d-1, via) + 2 // the skipped struct and the top-level struct
	switch {
	case lv <= 48:
		vrt.Check(err == nil && n == len(msg), "C15 messages nested no deeper than 48 levels are accepted")
		vrt.Check(vrt.BytesEq(pw._unknownFields, msg[:len(msg)-1]), "C11 skipped nest retained byte for byte")
		vrt.Reach("accepted")
	case lv > 65:
		vrt.Check(err != nil, "C15 unknown fields nested beyond the recursion limit of 64 are rejected with an error")
		vrt.Reach("rejected")
	default:
		vrt.Check(err == nil && n == len(msg) || err != nil, "C15 between 49 and 64 levels: accepted or rejected with an error")
		vrt.Reach("between")
	}
	vrt.Reach("end")
}

func VerifSetupDepth() {
	EncodedSize(new(DpRec))
	EncodedSize(new(DpSkip))
}
