package frugal

// C13: definitions and arguments outside the supported language must be rejected cleanly,
// consistently, before anything is produced or stored, and without affecting other types.

import (
	"github.com/cloudwego/frugal/internal/vrt"
)

type (
	IvUint struct {
		A uint32 `frugal:"1,default,i32"`
	}
	IvUint8 struct {
		A uint8 `frugal:"1,default,i8"`
	}
	IvUint64 struct {
		A uint64 `frugal:"1,default,i64"`
	}
	IvUintN struct {
		A uint `frugal:"1,default"`
	}
	IvF32 struct {
		A float32 `frugal:"1,default,double"`
	}
	IvArray struct {
		A [4]int32 `frugal:"1,default,list<i32>"`
	}
	IvChan struct {
		A chan int `frugal:"1,default"`
	}
	IvFunc struct {
		A func() `frugal:"1,default"`
	}
	IvIface struct {
		A interface{} `frugal:"1,default"`
	}
	IvCplx struct {
		A complex128 `frugal:"1,default"`
	}
	IvUintptr struct {
		A uintptr `frugal:"1,default"`
	}

	IvSliceNoAnn struct {
		A []int32 `frugal:"1,default"`
	}
	IvSliceBad struct {
		A []int32 `frugal:"1,default,vector<i32>"`
	}

	IvMismatchI struct {
		A int64 `frugal:"1,default,i32"`
	}
	IvMismatchS struct {
		A int32 `frugal:"1,default,string"`
	}
	IvMismatchL struct {
		A []int32 `frugal:"1,default,list<i64>"`
	}
	IvMismatchM struct {
		A map[int32]string `frugal:"1,default,map<i32:i32>"`
	}
	IvMismatchN struct {
		A *Leaf `frugal:"1,default,Other"`
	}
	IvMismatchMS struct {
		A []int32 `frugal:"1,default,map<i32:i32>"`
	}

	IvSyn1 struct {
		A []int32 `frugal:"1,default,list<i32"`
	}
	IvSyn2 struct {
		A map[int32]int32 `frugal:"1,default,map<i32,i32>"`
	}
	IvSyn3 struct {
		A []int32 `frugal:"1,default,list<>"`
	}
	IvSyn4 struct {
		A map[int32]int32 `frugal:"1,default,map<i32:>"`
	}
	IvSyn5 struct {
		A []int32 `frugal:"1,default,list i32>"`
	}
	IvSyn6 struct {
		A map[int32][]int32 `frugal:"1,default,map<i32:list<i32>"`
	}

	IvKeyBin struct {
		A map[[4]byte]int32 `frugal:"1,default,map<binary:i32>"`
	}
	IvKeyStr struct {
		A map[Leaf]int32 `frugal:"1,default,map<Leaf:i32>"`
	}
	IvKeyPtrI struct {
		A map[*int32]int32 `frugal:"1,default,map<i32:i32>"`
	}
	IvKeyIface struct {
		A map[interface{}]int32 `frugal:"1,default,map<i32:i32>"`
	}

	IvPtrReq struct {
		A *int32 `frugal:"1,required,i32"`
	}
	IvPtrDef struct {
		A *string `frugal:"1,default,string"`
	}
	IvPtrElem struct {
		A []*int32 `frugal:"1,default,list<i32>"`
	}
	IvPtrVal struct {
		A map[int32]*string `frugal:"1,default,map<i32:string>"`
	}
	IvPtrPtr struct {
		A **Leaf `frugal:"1,optional,Leaf"`
	}
	IvPtrPtrI struct {
		A **int32 `frugal:"1,optional,i32"`
	}
	IvPtrSlice struct {
		A *[]int32 `frugal:"1,optional,list<i32>"`
	}
	IvPtrMap struct {
		A *map[int32]int32 `frugal:"1,optional,map<i32:i32>"`
	}
	IvPtrSet struct {
		A *[]int32 `frugal:"1,optional,set<i32>"`
	}
	IvPtrSetS struct {
		A *[]string `frugal:"1,optional,set<string>"`
	}
	IvPtrSetDeep struct {
		L []map[string]IvPtrSet `frugal:"1,default,list<map<string:IvPtrSet>>"`
	}
	IvPtrListReq struct {
		A *[]int64 `frugal:"1,default,list<i64>"`
	}
	IvElemPP struct {
		A []**Leaf `frugal:"1,default,list<Leaf>"`
	}

	IvDupID struct {
		A int32 `frugal:"1,default,i32"`
		B int32 `frugal:"1,default,i32"`
	}
	IvIDText struct {
		A int32 `frugal:"one,default,i32"`
	}
	IvIDBig struct {
		A int32 `frugal:"65536,default,i32"`
	}
	IvIDNeg struct {
		A int32 `frugal:"-1,default,i32"`
	}
	IvIDEmpty struct {
		A int32 `frugal:",default,i32"`
	}
	IvReqBad struct {
		A int32 `frugal:"1,mandatory,i32"`
	}
	IvOptBad struct {
		A string `frugal:"1,default,string,nocopyy"`
	}
	IvNoCopyI struct {
		A int32 `frugal:"1,default,i32,nocopy"`
	}
	IvNoCopy2 struct {
		A string `frugal:"1,default,string,nocopy,nocopy"`
	}
	IvNoCopyL struct {
		A []string `frugal:"1,default,list<string>,nocopy"`
	}

	// invalid by nesting: an otherwise fine type reaching an invalid one
	IvOuterP struct {
		X int32     `frugal:"1,default,i32"`
		B *IvPtrPtr `frugal:"2,default,IvPtrPtr"`
	}
	IvOuterL struct {
		X int32      `frugal:"1,default,i32"`
		B []*IvDupID `frugal:"2,default,list<IvDupID>"`
	}
	IvOuterM struct {
		B map[string]IvUint `frugal:"2,default,map<string:IvUint>"`
	}

	// invalid two struct levels down, intermediate level reached by pointer / list / map value
	IvMidP struct {
		Bad *IvUint `frugal:"1,optional,IvUint"`
	}
	IvDeepP struct {
		X int32   `frugal:"1,default,i32"`
		M *IvMidP `frugal:"2,optional,IvMidP"`
	}
	IvMidL struct {
		Bad []*IvDupID `frugal:"1,default,list<IvDupID>"`
	}
	IvDeepL struct {
		M []*IvMidL `frugal:"2,default,list<IvMidL>"`
	}
	IvMidM struct {
		Bad IvF32 `frugal:"1,default,IvF32"`
	}
	IvDeepM struct {
		M map[int32]*IvMidM `frugal:"2,default,map<i32:IvMidM>"`
	}
	// mutually recursive types (by value through lists) one of which has an invalid field
	IvCycA struct {
		B   []IvCycB `frugal:"1,default,list<IvCycB>"`
		Bad *IvUint  `frugal:"2,optional,IvUint"`
	}
	IvCycB struct {
		A []IvCycA `frugal:"1,default,list<IvCycA>"`
	}
	// the same through pointers
	IvCycPA struct {
		B   *IvCycPB `frugal:"1,optional,IvCycPB"`
		Bad *IvUint  `frugal:"2,optional,IvUint"`
	}
	IvCycPB struct {
		A *IvCycPA `frugal:"1,optional,IvCycPA"`
	}
)

type ivCase struct {
	name string
	ptr  func() interface{}
	val  func() interface{}
	also []func() interface{} // types reached from it that must be rejected as well, after it was
	sib  func()               // valid types sharing nested structs with it: must keep working (nil: only the unrelated Leaf)
}

func ivSib(c ivCase, f func()) ivCase { c.sib = f; return c }

func (c ivCase) sibling() {
	siblingOK(ops_Leaf)
	if c.sib != nil {
		c.sib()
	}
}

func ivAlso(c ivCase, f ...func() interface{}) ivCase { c.also = f; return c }

func ivc[T any](name string) ivCase {
	return ivCase{name: name, ptr: func() interface{} { return new(T) }, val: func() interface{} { var z T; return z }}
}

var ivCases = []ivCase{
	ivc[IvUint]("uint32"), ivc[IvUint8]("uint8"), ivc[IvUint64]("uint64"), ivc[IvUintN]("uint"), ivc[IvF32]("float32"),
	ivc[IvArray]("array"), ivc[IvChan]("chan"), ivc[IvFunc]("func"), ivc[IvIface]("interface"), ivc[IvCplx]("complex"), ivc[IvUintptr]("uintptr"),
	ivc[IvSliceNoAnn]("slice-without-annotation"), ivc[IvSliceBad]("slice-unknown-container-word"),
	ivc[IvMismatchI]("i32-on-int64"), ivc[IvMismatchS]("string-on-int32"), ivc[IvMismatchL]("list-elem-mismatch"), ivc[IvMismatchM]("map-value-mismatch"),
	ivc[IvMismatchN]("struct-name-mismatch"), ivc[IvMismatchMS]("map-annotation-on-slice"),
	ivc[IvSyn1]("missing->"), ivc[IvSyn2]("comma-for-colon"), ivc[IvSyn3]("empty-elem"), ivc[IvSyn4]("empty-value"), ivc[IvSyn5]("missing-<"), ivc[IvSyn6]("unbalanced-nested"),
	ivc[IvKeyBin]("array-key"), ivc[IvKeyStr]("struct-value-key"), ivc[IvKeyPtrI]("pointer-to-int-key"), ivc[IvKeyIface]("interface-key"),
	ivc[IvPtrReq]("required-pointer-scalar"), ivc[IvPtrDef]("default-pointer-scalar"), ivc[IvPtrElem]("pointer-scalar-element"), ivc[IvPtrVal]("pointer-scalar-map-value"),
	ivc[IvPtrPtr]("pointer-to-pointer-struct"), ivc[IvPtrPtrI]("pointer-to-pointer-scalar"), ivc[IvPtrSlice]("pointer-to-slice"), ivc[IvPtrMap]("pointer-to-map"), ivc[IvPtrSet]("pointer-to-slice-as-set"), ivc[IvPtrSetS]("pointer-to-string-slice-as-set"), ivc[IvPtrSetDeep]("pointer-to-set-nested-in-list-of-maps"), ivc[IvPtrListReq]("default-pointer-to-slice"), ivc[IvElemPP]("element-pointer-to-pointer"),
	ivc[IvPtrBinEl]("pointer-to-binary-list-element"), ivc[IvPtrBinSe]("pointer-to-binary-set-element"), ivc[IvPtrBinMv]("pointer-to-binary-map-value"),
	ivc[IvPtrStrEl]("pointer-to-string-list-element"), ivc[IvPtrBinIn]("pointer-to-binary-element-nested"),
	ivc[IvDupID]("duplicate-id"), ivc[IvIDText]("non-numeric-id"), ivc[IvIDBig]("id-65536"), ivc[IvIDNeg]("negative-id"), ivc[IvIDEmpty]("empty-id"),
	ivc[IvReqBad]("unknown-requiredness"), ivc[IvOptBad]("unknown-option"), ivc[IvNoCopyI]("nocopy-on-int"), ivc[IvNoCopy2]("duplicate-nocopy"), ivc[IvNoCopyL]("nocopy-on-list"),
	ivc[IvOuterP]("nested-invalid-via-pointer"), ivc[IvOuterL]("nested-invalid-via-list"), ivc[IvOuterM]("nested-invalid-via-map-value"),
	ivAlso(ivc[IvDeepP]("invalid-two-levels-down-via-pointer"), func() interface{} { return new(IvMidP) }),
	ivAlso(ivc[IvDeepL]("invalid-two-levels-down-via-list"), func() interface{} { return new(IvMidL) }),
	ivAlso(ivc[IvDeepM]("invalid-two-levels-down-via-map"), func() interface{} { return new(IvMidM) }),
	ivAlso(ivc[IvCycA]("mutual-recursion-by-value-with-invalid-member"), func() interface{} { return &IvCycB{A: []IvCycA{{Bad: &IvUint{}}}} }),
	ivAlso(ivc[IvCycB]("mutual-recursion-by-value-reaching-invalid-member"), func() interface{} { return new(IvCycA) }),
	ivAlso(ivc[IvCycPA]("mutual-recursion-by-pointer-with-invalid-member"), func() interface{} { return &IvCycPB{A: &IvCycPA{Bad: &IvUint{}}} }),
	ivAlso(ivc[IvCycPB]("mutual-recursion-by-pointer-reaching-invalid-member"), func() interface{} { return new(IvCycPA) }),
	// the failing type nests a VALID struct in one flavour (by value / by pointer) before its invalid member, while a valid
	// sibling type uses the same struct in the other flavour: rolling the failed registration back must not take the
	// sibling's descriptors with it
	ivSib(ivc[IvShXV]("valid-nested-by-value-next-to-invalid"), func() { ivShared(true) }),
	ivSib(ivc[IvShXP]("valid-nested-by-pointer-next-to-invalid"), func() { ivShared(false) }),
	ivSib(ivc[IvShXL]("valid-nested-in-list-next-to-invalid"), func() { ivShared(true); ivShared(false) }),
}

// arguments that are not a (pointer to a) struct
func ivArgs() []interface{} {
	x := 5
	var nilp *Leaf
	pp := &nilp
	return []interface{}{nil, 7, &x, "s", []Leaf{{}}, map[int32]int32{}, pp, []byte{1}, func() {}}
}

func ivRejected(p interface{}, byValue interface{}, tag string) {
	vrt.SetOwner("buf")
	buf := vrt.Bytes("buf", 6)
	snap := append([]byte{}, buf...)
	vrt.SetOwner("impl")
	vrt.Freeze("user", true)
	n, err := EncodeObject(buf, nil, p)
	vrt.Check(err != nil, "C13 EncodeObject returns an error for an unsupported definition/argument")
	vrt.Check(n == 0, "C13 rejection reports no bytes")
	vrt.Check(vrt.BytesEq(buf, snap), "C13 rejection happens before any byte is produced")
	r := vrt.Catch(func() { EncodedSize(p) })
	vrt.Check(r != 0, "C13 EncodedSize panics for an unsupported definition/argument")
	vrt.Check(r != 2, "C13 rejection is an ordinary Go panic, never a runtime fault")
	if byValue != nil {
		n, err = EncodeObject(buf, nil, byValue)
		vrt.Check(err != nil && n == 0, "C13 EncodeObject(value) returns an error for an unsupported definition")
		r = vrt.Catch(func() { EncodedSize(byValue) })
		vrt.Check(r == 1, "C13 EncodedSize(value) panics with an ordinary Go panic")
	}
	in := []byte{8, 0, 1, 0, 0, 0, 5, 0}
	vrt.Freeze("buf", true)
	var n2 int
	var err2 error
	r = vrt.Catch(func() { n2, err2 = DecodeObject(in, p) })
	vrt.Check(r == 0, "C13 DecodeObject does not panic for an unsupported definition/argument")
	vrt.Check(err2 != nil, "C13 DecodeObject returns an error for an unsupported definition/argument")
	vrt.Check(n2 == 0, "C13 rejection consumes nothing")
	vrt.Freeze("buf", false)
	vrt.Freeze("user", false)
}

// siblingOK: a valid type keeps working (round trip of a symbolic value against the reference).
func siblingOK(ops *typeOps) {
	vrt.SetOwner("user")
	pv := ops.NewZero()
	fixedShape = 2
	ops.Fill(pv, "sib")
	fixedShape = -1
	rv := ops.ToRef(pv)
	ref := refEncodeStruct(ops.St, rv, nil)
	vrt.SetOwner("impl")
	n := EncodedSize(pv)
	buf := make([]byte, n)
	k, err := EncodeObject(buf, nil, pv)
	vrt.Check(err == nil && k == n && vrt.BytesEq(buf, ref), "C13 a valid type is not affected by rejected ones (encode)")
	pw := ops.New()
	want := refRoundTripStruct(ops.St, rv, ops.ToRef(pw))
	c, derr := DecodeObject(buf, pw)
	vrt.Check(derr == nil && c == n && refEqualStruct(ops.St, want, ops.ToRef(pw)), "C13 a valid type is not affected by rejected ones (decode)")
}

// VerifInvalidDef: one invalid definition (job parameter "case"), three orders of first use mixed with a valid sibling.
func VerifInvalidDef() {
	c := ivCases[vrt.Param("case")]
	vrt.SetOwner("user")
	p := c.ptr()
	v := c.val()
	defer func() {
		// everything that reaches the invalid definition must be rejected too, whatever was registered before
		for _, f := range c.also {
			ivRejected(f(), nil, c.name)
		}
		vrt.Reach("end")
	}()
	switch vrt.Choice("order", 3) {
	case 0:
		ivRejected(p, v, c.name)
		c.sibling()
		ivRejected(p, v, c.name) // the same on every call
	case 1:
		c.sibling()
		ivRejected(p, v, c.name)
		ivRejected(p, v, c.name)
		c.sibling()
	case 2:
		// DecodeObject is the first entry point to see the type
		in := []byte{0}
		n, err := DecodeObject(in, p)
		vrt.Check(err != nil && n == 0, "C13 DecodeObject returns an error for an unsupported definition/argument")
		ivRejected(p, v, c.name)
		c.sibling()
	}
}

// VerifInvalidArg: arguments that are not (pointers to) structs.
func VerifInvalidArg() {
	args := ivArgs()
	a := args[vrt.Param("case")]
	ivRejected(a, nil, "arg")
	siblingOK(ops_Leaf)
	ivRejected(a, nil, "arg")
	vrt.Reach("end")
}

func VerifSetupInvalid() { EncodedSize(ops_Leaf.New()) }

type (
	IvPtrBinEl struct {
		A []*[]byte `frugal:"1,default,list<binary>"`
	}
	IvPtrBinSe struct {
		A []*[]byte `frugal:"1,default,set<binary>"`
	}
	IvPtrBinMv struct {
		A map[string]*[]byte `frugal:"1,default,map<string:binary>"`
	}
	IvPtrStrEl struct {
		A []*string `frugal:"1,default,list<string>"`
	}
	IvPtrBinIn struct {
		A []IvPtrBinEl `frugal:"1,default,list<IvPtrBinEl>"`
	}
)

type (
	IvShN struct {
		A int32 `frugal:"1,default,i32"`
	}
	IvShTP struct {
		P *IvShN   `frugal:"1,optional,IvShN"`
		L []*IvShN `frugal:"2,default,list<IvShN>"`
	}
	IvShTV struct {
		V IvShN   `frugal:"1,default,IvShN"`
		L []IvShN `frugal:"2,default,list<IvShN>"`
	}
	IvShXV struct {
		V IvShN   `frugal:"1,default,IvShN"`
		B *IvUint `frugal:"2,optional,IvUint"`
	}
	IvShXP struct {
		P *IvShN  `frugal:"1,optional,IvShN"`
		B *IvUint `frugal:"2,optional,IvUint"`
	}
	IvShXL struct {
		L  []IvShN  `frugal:"1,default,list<IvShN>"`
		LP []*IvShN `frugal:"2,default,list<IvShN>"`
		B  []IvUint `frugal:"3,default,list<IvUint>"`
	}
)

// ivShared: round trip of a valid type that uses IvShN through pointers only (ptr) or by value only, against
// independently written expected bytes.
func ivShared(ptr bool) {
	vrt.SetOwner("user")
	a, b := int32(vrt.U32("sh.a")), int32(vrt.U32("sh.b"))
	be := func(o []byte, v int32) []byte {
		return append(o, byte(uint32(v)>>24), byte(uint32(v)>>16), byte(uint32(v)>>8), byte(uint32(v)))
	}
	exp := be([]byte{12, 0, 1, 8, 0, 1}, a)
	exp = append(exp, 0, 15, 0, 2, 12, 0, 0, 0, 1, 8, 0, 1)
	exp = append(be(exp, b), 0, 0)
	var v, out interface{}
	if ptr {
		v, out = &IvShTP{P: &IvShN{A: a}, L: []*IvShN{{A: b}}}, &IvShTP{}
	} else {
		v, out = &IvShTV{V: IvShN{A: a}, L: []IvShN{{A: b}}}, &IvShTV{}
	}
	vrt.SetOwner("impl")
	vrt.Phase("sibling")
	vrt.Check(EncodedSize(v) == len(exp), "C07 a valid type sharing a nested struct with a rejected type keeps its size")
	buf := make([]byte, len(exp))
	n, err := EncodeObject(buf, nil, v)
	vrt.Check(err == nil && n == len(exp) && vrt.BytesEq(buf, exp), "C07 a valid type sharing a nested struct with a rejected type keeps encoding")
	n, err = DecodeObject(exp, out)
	vrt.Check(err == nil && n == len(exp), "C07 a valid type sharing a nested struct with a rejected type keeps decoding")
	if ptr {
		o := out.(*IvShTP)
		vrt.Check(o.P != nil && o.P.A == a && len(o.L) == 1 && o.L[0] != nil && o.L[0].A == b, "C07 a valid type sharing a nested struct with a rejected type decodes the transmitted value")
	} else {
		o := out.(*IvShTV)
		vrt.Check(o.V.A == a && len(o.L) == 1 && o.L[0].A == b, "C07 a valid type sharing a nested struct with a rejected type decodes the transmitted value")
	}
	vrt.Phase("")
}
