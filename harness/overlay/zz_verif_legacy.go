package frugal

// C17: the controls retained from the JIT era have no effect on any result.

import (
	"reflect"
	"unsafe"

	"github.com/cloudwego/frugal/debug"
	"github.com/cloudwego/frugal/internal/opts"
	"github.com/cloudwego/frugal/internal/vrt"
)

func legacyCall(i int, x int) {
	switch i {
	case 0:
		vrt.Check(SetMaxInlineDepth(x) == x, "C17 SetMaxInlineDepth returns its argument")
	case 1:
		vrt.Check(SetMaxInlineILSize(x) == x, "C17 SetMaxInlineILSize returns its argument")
	case 2:
		NoJIT(x&1 == 1)
	case 3:
		_ = debug.GetStats()
	case 4:
		args := []interface{}{nil, 7, new(Leaf), Leaf{}, new(IvUint), new(IvPtrPtr), []int{1}, "s", new(DpRec),
			new(IvOuterP), IvOuterL{}, new(IvDeepP), new(IvDeepL), new(IvCycA), new(IvCycPB),
			reflect.TypeOf(IvDeepM{}), reflect.TypeOf(new(IvOuterM)), reflect.TypeOf(Leaf{}),
			// the types under test themselves, in every argument form (by value, by pointer, as reflect.Type)
			LeafD{}, new(LeafD), reflect.TypeOf(LeafD{}), reflect.TypeOf(new(LeafD)), NsB{}, new(NsB), reflect.TypeOf(NsB{})}
		for _, a := range args {
			vrt.Check(Pretouch(a) == nil, "C17 Pretouch accepts any type and never fails")
			vrt.Check(Pretouch(a, WithMaxInlineDepth(x), WithMaxInlineILSize(x), WithMaxPretouchDepth(x)) == nil, "C17 Pretouch with options never fails")
		}
		// ... and changes nothing: definitions that are rejected stay rejected, whatever was "pre-touched"
		for _, p := range []interface{}{new(IvOuterP), new(IvOuterL), new(IvDeepP), new(IvDeepL), new(IvDeepM), new(IvOuterM), new(IvCycA), new(IvCycB), new(IvCycPB)} {
			ivRejected(p, nil, "after Pretouch")
		}
	case 5:
		o := &opts.Options{}
		for _, f := range []Option{WithMaxInlineDepth(x), WithMaxInlineILSize(x), WithMaxPretouchDepth(x)} {
			f(o)
		}
		vrt.Check(*o == opts.Options{}, "C17 option constructors have no effect")
	}
}

// VerifLegacy: the package-level knobs hold ARBITRARY values, and one legacy call (arbitrary argument) is placed
// before, between or after the codec calls on a symbolic value: sizes, bytes and decoded value equal the reference.
func VerifLegacy() {
	vrt.HavocBytes("opts.MaxInlineDepth", unsafe.Pointer(&opts.MaxInlineDepth), 8)
	vrt.HavocBytes("opts.MaxInlineILSize", unsafe.Pointer(&opts.MaxInlineILSize), 8)
	x := int(vrt.U64("arg"))
	which := vrt.Choice("call", 6)
	where := vrt.Choice("where", 4)
	ops := ops_LeafD
	vrt.SetOwner("user")
	pv := ops.NewZero()
	if vrt.ParamOr("t", 0) == 1 {
		// every container / element class, one element each (symbolic contents)
		ops = ops_LgAll
		pv = ops.NewZero()
		fixedShape = 2
		ops.Fill(pv, "v")
		fixedShape = -1
	} else if vrt.ParamOr("t", 0) == 2 {
		// default-bearing structs nested by value / by pointer in fields, map values and list elements
		ops = ops_NsB
		pv = ops.NewZero()
		fixedShape = 2
		ops.Fill(pv, "v")
		fixedShape = -1
	} else {
		ops.Fill(pv, "v")
	}
	rv := ops.ToRef(pv)
	ref := refEncodeStruct(ops.St, rv, nil)
	vrt.SetOwner("impl") // memory allocated by the calls below belongs to the implementation, not to the caller's value
	if where == 0 {
		legacyCall(which, x)
	}
	n := EncodedSize(pv)
	vrt.Check(n == len(ref), "C17 size unaffected by legacy controls")
	if where == 1 {
		legacyCall(which, x)
	}
	buf := make([]byte, n)
	k, err := EncodeObject(buf, nil, pv)
	vrt.Check(err == nil && k == n && vrt.BytesEq(buf, ref), "C17 encoded bytes unaffected by legacy controls")
	if where == 2 {
		legacyCall(which, x)
	}
	pw := ops.New()
	want := refRoundTripStruct(ops.St, rv, ops.ToRef(pw))
	c, derr := DecodeObject(buf, pw)
	vrt.Check(derr == nil && c == n && refEqualStruct(ops.St, want, ops.ToRef(pw)), "C17 decoded value unaffected by legacy controls")
	if where == 3 {
		legacyCall(which, x)
	}
	vrt.Reach("end")
}
