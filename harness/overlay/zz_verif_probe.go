package frugal

import (
	"github.com/cloudwego/frugal/internal/vrt"
)

type VP1 struct {
	A int32            `frugal:"1,default,i32"`
	B *int64           `frugal:"2,optional,i64"`
	S string           `frugal:"3,required,string"`
	L []int16          `frugal:"4,default,list<i16>"`
	M map[int32]string `frugal:"5,default,map<i32:string>"`
}

func VerifProbe1() {
	var v VP1
	v.A = int32(vrt.U32("A"))
	if vrt.Choice("hasB", 2) == 1 {
		b := int64(vrt.U64("B"))
		v.B = &b
	}
	v.S = vrt.String("S", vrt.Choice("lenS", 3))
	nl := vrt.Choice("lenL", 3)
	if nl > 0 {
		v.L = make([]int16, nl)
		for i := range v.L {
			v.L[i] = int16(vrt.U16("L"))
		}
	}
	nm := vrt.Choice("lenM", 2)
	if nm > 0 {
		v.M = map[int32]string{}
		v.M[int32(vrt.U32("MK"))] = vrt.String("MV", 1)
	}
	n := EncodedSize(&v)
	buf := make([]byte, n)
	k, err := EncodeObject(buf, nil, &v)
	vrt.Check(err == nil, "encode ok")
	vrt.Check(k == n, "encode len == EncodedSize")
	var w VP1
	c, err := DecodeObject(buf, &w)
	vrt.Check(err == nil, "decode ok")
	vrt.Check(c == n, "decode consumed all")
	vrt.Check(w.A == v.A, "A")
	vrt.Check((w.B == nil) == (v.B == nil), "B presence")
	if v.B != nil && w.B != nil {
		vrt.Check(*w.B == *v.B, "B value")
	}
	vrt.Check(vrt.StrEq(w.S, v.S), "S")
	vrt.Check(len(w.L) == len(v.L), "len L")
	for i := range v.L {
		if i < len(w.L) {
			vrt.Check(w.L[i] == v.L[i], "L elem")
		}
	}
	vrt.Check(len(w.M) == len(v.M), "len M")
	vrt.Reach("end")
}
