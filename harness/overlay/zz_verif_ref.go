package frugal

// Reference model of the Thrift Binary Protocol codec, written from the
// protocol specification and the property statements — NOT from frugal's tags
// or descriptors. Values are generic trees (RVal) typed by a schema (RStruct)
// that the generator emits next to every corpus type. Everything here is safe
// Go (no unsafe, no reflect) and is executed symbolically by the engine.

import (
	"github.com/cloudwego/frugal/internal/vrt"
)

type RKind uint8

const (
	KBool RKind = iota + 1
	KI8
	KI16
	KI32
	KI64
	KDouble
	KEnum
	KString
	KBinary
	KList
	KSet
	KMap
	KStruct
)

const (
	ReqDefault  = 0
	ReqRequired = 1
	ReqOptional = 2
)

type RType struct {
	Kind   RKind
	Elem   *RType   // list/set element, map value
	Key    *RType   // map key
	Struct *RStruct // KStruct
}

type RField struct {
	ID     uint16
	Req    uint8
	T      *RType
	Ptr    bool  // Go representation is a pointer (optional scalars, struct pointers)
	HasDef bool  // struct declares defaults (InitDefault) => Def is what it leaves in this field
	Def    *RVal // value the default initialiser leaves in the field (scalars/string/binary), nil otherwise
	Assign bool  // the default initialiser explicitly assigns this field
	NoCopy bool
	Name   string
}

type RStruct struct {
	Name       string
	Fields     []RField // ascending field id
	HasInit    bool
	HasUnknown bool
}

// RVal: U carries scalar bits (bool 0/1, integers sign-extended to 64 bits,
// double raw bits); B string/binary bytes; Nil marks nil pointer / nil
// container / nil binary; Elems list/set elements or map values; Keys map keys;
// F struct fields in schema order; Unknown retained unknown-field bytes.
type RVal struct {
	U       uint64
	B       []byte
	Nil     bool
	Elems   []*RVal
	Keys    []*RVal
	F       []*RVal
	Unknown []byte
}

func wireType(t *RType) byte {
	switch t.Kind {
	case KBool:
		return 2
	case KI8:
		return 3
	case KDouble:
		return 4
	case KI16:
		return 6
	case KI32, KEnum:
		return 8
	case KI64:
		return 10
	case KString, KBinary:
		return 11
	case KStruct:
		return 12
	case KMap:
		return 13
	case KSet:
		return 14
	case KList:
		return 15
	}
	return 0
}

func isScalarish(k RKind) bool { return k <= KBinary }

func put16(out []byte, v uint16) []byte { return append(out, byte(v>>8), byte(v)) }
func put32(out []byte, v uint32) []byte {
	return append(out, byte(v>>24), byte(v>>16), byte(v>>8), byte(v))
}
func put64(out []byte, v uint64) []byte {
	return append(out, byte(v>>56), byte(v>>48), byte(v>>40), byte(v>>32), byte(v>>24), byte(v>>16), byte(v>>8), byte(v))
}

// scalarEq: Go == on the field's kind (double: IEEE ==, so NaN != NaN and -0 == +0).
func scalarEq(k RKind, a, b *RVal) bool {
	switch k {
	case KDouble:
		return vrt.F64Eq(a.U, b.U)
	case KString, KBinary:
		return vrt.BytesEq(a.B, b.B)
	}
	return a.U == b.U
}

// refOmitted: the encoder omits an optional field exactly when it is a nil
// pointer / nil container (nil binary), or a non-pointer scalar/string/binary
// equal to the default its struct's default initialiser declares.
func refOmitted(f *RField, v *RVal) bool {
	if f.Req != ReqOptional {
		return false
	}
	if f.Ptr || !isScalarish(f.T.Kind) || f.T.Kind == KBinary {
		if v.Nil {
			return true
		}
	}
	if !f.Ptr && isScalarish(f.T.Kind) && f.HasDef && f.Def != nil {
		return scalarEq(f.T.Kind, f.Def, v)
	}
	return false
}

func refEncodeStruct(st *RStruct, v *RVal, out []byte) []byte {
	if v == nil || v.Nil {
		return append(out, 0) // nil non-optional struct => empty struct
	}
	nf := len(st.Fields)
	var dup []byte
	for j := 0; j < nf; j++ {
		i := fieldOrder(j, nf)
		f := &st.Fields[i]
		fv := v.F[i]
		if refOmitted(f, fv) {
			continue
		}
		start := len(out)
		out = append(out, wireType(f.T))
		out = put16(out, f.ID)
		out = refEncodeValue(f.T, fv, out)
		if encDup != 0 && dup == nil && f.T.Kind <= KBinary {
			dup = append([]byte{}, out[start:]...)
		}
	}
	// encDup: a foreign writer may send a field id twice; the first scalar/string field written is repeated (same
	// value) after the last field of every struct
	out = append(out, dup...)
	if st.HasUnknown && len(v.Unknown) > 0 {
		out = append(out, v.Unknown...)
	}
	return append(out, 0)
}

func refEncodeValue(t *RType, v *RVal, out []byte) []byte {
	switch t.Kind {
	case KBool, KI8:
		return append(out, byte(v.U))
	case KI16:
		return put16(out, uint16(v.U))
	case KI32, KEnum:
		return put32(out, uint32(v.U))
	case KI64, KDouble:
		return put64(out, v.U)
	case KString, KBinary:
		encLenPos = append(encLenPos, len(out))
		out = put32(out, uint32(len(v.B)))
		return append(out, v.B...)
	case KStruct:
		return refEncodeStruct(t.Struct, v, out)
	case KList, KSet:
		out = append(out, wireType(t.Elem))
		encLenPos = append(encLenPos, len(out))
		if v.Nil {
			return put32(out, 0)
		}
		out = put32(out, uint32(len(v.Elems)))
		for _, e := range v.Elems {
			out = refEncodeValue(t.Elem, e, out)
		}
		return out
	case KMap:
		out = append(out, wireType(t.Key), wireType(t.Elem))
		encLenPos = append(encLenPos, len(out))
		if v.Nil {
			return put32(out, 0)
		}
		out = put32(out, uint32(len(v.Keys)))
		for i := range v.Keys {
			out = refEncodeValue(t.Key, v.Keys[i], out)
			out = refEncodeValue(t.Elem, v.Elems[i], out)
		}
		return out
	}
	return out
}

// defaultStruct: the value of a struct the decoder creates: zero, then declared defaults.
func defaultStruct(st *RStruct) *RVal {
	r := &RVal{F: make([]*RVal, len(st.Fields))}
	for i := range st.Fields {
		f := &st.Fields[i]
		r.F[i] = defaultField(f)
	}
	return r
}

func defaultField(f *RField) *RVal {
	if f.Def != nil && !f.Ptr {
		return f.Def
	}
	if f.Ptr {
		return &RVal{Nil: true}
	}
	switch f.T.Kind {
	case KString:
		return &RVal{}
	case KBinary, KList, KSet, KMap:
		return &RVal{Nil: true}
	case KStruct:
		return zeroStruct(f.T.Struct) // by-value struct: zero value (its own InitDefault is NOT run by the parent's)
	}
	return &RVal{}
}

// applyInit: effect of running the struct's default initialiser over existing contents.
func applyInit(st *RStruct, dst *RVal) *RVal {
	if !st.HasInit {
		return dst
	}
	r := &RVal{F: make([]*RVal, len(st.Fields)), Unknown: dst.Unknown}
	for i := range st.Fields {
		f := &st.Fields[i]
		if f.Assign && f.Def != nil && !f.Ptr {
			r.F[i] = f.Def
		} else {
			r.F[i] = dst.F[i]
		}
	}
	return r
}

// zeroStruct: zero value of a by-value struct (no defaults).
func zeroStruct(st *RStruct) *RVal {
	r := &RVal{F: make([]*RVal, len(st.Fields))}
	for i := range st.Fields {
		f := &st.Fields[i]
		switch {
		case f.Ptr:
			r.F[i] = &RVal{Nil: true}
		case f.T.Kind == KBinary || f.T.Kind == KList || f.T.Kind == KSet || f.T.Kind == KMap:
			r.F[i] = &RVal{Nil: true}
		case f.T.Kind == KStruct:
			r.F[i] = zeroStruct(f.T.Struct)
		default:
			r.F[i] = &RVal{}
		}
	}
	return r
}

// refRoundTrip computes what decoding the encoding of v into dst (the
// destination's prior contents, as a tree) must yield, per C01/C10:
// transmitted fields take the transmitted value (with the documented
// normalisations), omitted ones keep what the destination had.
func refRoundTripStruct(st *RStruct, v *RVal, dst *RVal) *RVal {
	r := &RVal{F: make([]*RVal, len(st.Fields))}
	if v == nil || v.Nil {
		// nil non-optional struct pointer was written as an empty struct
		for i := range st.Fields {
			r.F[i] = dst.F[i]
		}
		r.Unknown = dst.Unknown
		return r
	}
	for i := range st.Fields {
		f := &st.Fields[i]
		if refOmitted(f, v.F[i]) {
			r.F[i] = dst.F[i]
			continue
		}
		switch {
		case f.T.Kind == KStruct && f.Ptr:
			// pointer struct field: the decoder allocates a fresh struct, applies defaults, decodes
			r.F[i] = refRoundTripStruct(f.T.Struct, v.F[i], newStructDst(f.T.Struct))
		case f.T.Kind == KStruct:
			// by-value struct field: defaults are (re)applied in place, then the message
			r.F[i] = refRoundTripStruct(f.T.Struct, v.F[i], applyInit(f.T.Struct, dst.F[i]))
		default:
			r.F[i] = refRoundTripValue(f.T, v.F[i])
		}
	}
	if st.HasUnknown {
		if len(v.Unknown) > 0 {
			r.Unknown = v.Unknown
		} else {
			r.Unknown = dst.Unknown
		}
	}
	return r
}

// newStructDst: contents of a struct freshly created by the decoder.
func newStructDst(st *RStruct) *RVal {
	if st.HasInit {
		return defaultStruct(st)
	}
	return zeroStruct(st)
}

func refRoundTripValue(t *RType, v *RVal) *RVal {
	switch t.Kind {
	case KString:
		return &RVal{B: v.B}
	case KBinary:
		return &RVal{B: v.B} // decoded binaries are non-nil (empty when zero length)
	case KStruct:
		return refRoundTripStruct(t.Struct, v, newStructDst(t.Struct))
	case KList, KSet:
		r := &RVal{}
		if !v.Nil {
			for _, e := range v.Elems {
				r.Elems = append(r.Elems, refRoundTripElem(t.Elem, e))
			}
		}
		return r
	case KMap:
		r := &RVal{}
		if !v.Nil {
			for i := range v.Keys {
				r.Keys = append(r.Keys, refRoundTripElem(t.Key, v.Keys[i]))
				r.Elems = append(r.Elems, refRoundTripElem(t.Elem, v.Elems[i]))
			}
		}
		return r
	}
	return &RVal{U: v.U}
}

// refRoundTripElem: container elements / keys / values are always created by the decoder.
func refRoundTripElem(t *RType, v *RVal) *RVal {
	return refRoundTripValue(t, v)
}

// refEqual: structural equality of value trees; maps compared as sets of
// entries (order immaterial, keys by Go ==); nil-ness of containers compared
// exactly (the caller normalises first).
func refEqual(t *RType, a, b *RVal) bool {
	switch t.Kind {
	case KString:
		return vrt.BytesEq(a.B, b.B)
	case KBinary:
		return vrt.And(a.Nil == b.Nil, vrt.BytesEq(a.B, b.B))
	case KStruct:
		return refEqualStruct(t.Struct, a, b)
	case KList, KSet:
		if a.Nil != b.Nil || len(a.Elems) != len(b.Elems) {
			return false
		}
		ok := true
		for i := range a.Elems {
			ok = vrt.And(ok, refEqual(t.Elem, a.Elems[i], b.Elems[i]))
		}
		return ok
	case KMap:
		if a.Nil != b.Nil || len(a.Keys) != len(b.Keys) {
			return false
		}
		ok := true
		for i := range a.Keys {
			found := false
			for j := range b.Keys {
				found = vrt.Or(found, vrt.And(refKeyEq(t.Key, a.Keys[i], b.Keys[j]), refEqual(t.Elem, a.Elems[i], b.Elems[j])))
			}
			ok = vrt.And(ok, found)
		}
		return ok
	}
	return a.U == b.U
}

func refKeyEq(t *RType, a, b *RVal) bool {
	if t.Kind == KStruct {
		return refEqualStruct(t.Struct, a, b) // pointer keys: compared by pointee in the model
	}
	if t.Kind == KString {
		return vrt.BytesEq(a.B, b.B)
	}
	return a.U == b.U // bit-exact (NaN keys are excluded by the harness assumption)
}

func refEqualStruct(st *RStruct, a, b *RVal) bool {
	if a.Nil != b.Nil {
		return false
	}
	if a.Nil {
		return true
	}
	ok := true
	for i := range st.Fields {
		f := &st.Fields[i]
		x, y := a.F[i], b.F[i]
		if f.Ptr {
			if x.Nil != y.Nil {
				return false
			}
			if x.Nil {
				continue
			}
		}
		ok = vrt.And(ok, refEqual(f.T, x, y))
	}
	if st.HasUnknown {
		ok = vrt.And(ok, vrt.BytesEq(a.Unknown, b.Unknown))
	}
	return ok
}

// encOrder selects the order in which the reference encoder writes the fields of every struct
// (a foreign writer may use any order): 0 ascending id, 1 descending, k>=2 rotated by k-1.
var encOrder = 0

// encDup != 0: every struct repeats its first written scalar/string field before STOP.
var encDup = 0

func fieldOrder(j, n int) int {
	switch {
	case encOrder == 0:
		return j
	case encOrder == 1:
		return n - 1 - j
	}
	return (j + encOrder - 1) % n
}

// encLenPos: offsets (relative to the output passed to the outermost call when it starts empty) of every
// 32-bit length / count field the reference encoder wrote since it was last reset.
var encLenPos []int
