package frugal

// Reference decoder: Thrift Binary Protocol reader written from the protocol
// specification and the property statements (C03 C05 C09 C10 C11), driven by
// the generated schema. Safe Go only; executed symbolically next to frugal.

import "github.com/cloudwego/frugal/internal/vrt"

// refDec carries the outcome flags of one reference decode.
type refDec struct {
	OkOpen    bool   // whether the message counts as well-formed is left open (empty container announcing a non-Thrift element type code)
	ValueOpen bool   // the properties leave the decoded value open (BOOL byte not 0/1, duplicate field id, duplicate map key)
	Missing   string // name of the first (lowest id) required field found missing, at the innermost failing struct
	Reason    string // why the message is not well-formed (diagnostics only)
}

const skipDepthLimit = 64

func be16(b []byte) uint16 { return uint16(b[0])<<8 | uint16(b[1]) }
func be32(b []byte) uint32 {
	return uint32(b[0])<<24 | uint32(b[1])<<16 | uint32(b[2])<<8 | uint32(b[3])
}
func be64(b []byte) uint64 {
	return uint64(be32(b))<<32 | uint64(be32(b[4:]))
}

func fixedWireSize(wt byte) int {
	switch wt {
	case 2, 3:
		return 1
	case 6:
		return 2
	case 8:
		return 4
	case 4, 10:
		return 8
	}
	return 0
}

// refSkip: length of one value of wire type wt at the start of b, or ok=false.
func validWire(wt byte) bool {
	switch wt {
	case 2, 3, 4, 6, 8, 10, 11, 12, 13, 14, 15:
		return true
	}
	return false
}

func refSkip(d *refDec, b []byte, wt byte, depth int) (int, bool) {
	if depth <= 0 {
		return 0, false
	}
	if s := fixedWireSize(wt); s > 0 {
		if len(b) < s {
			return 0, false
		}
		return s, true
	}
	switch wt {
	case 11:
		if len(b) < 4 {
			return 0, false
		}
		l := int(int32(be32(b)))
		if l < 0 || l > len(b)-4 {
			return 0, false
		}
		return 4 + l, true
	case 12:
		i := 0
		for {
			if len(b)-i < 1 {
				return 0, false
			}
			ft := b[i]
			i++
			if ft == 0 {
				return i, true
			}
			if len(b)-i < 2 {
				return 0, false
			}
			i += 2
			n, ok := refSkip(d, b[i:], ft, depth-1)
			if !ok {
				return 0, false
			}
			i += n
		}
	case 13:
		if len(b) < 6 {
			return 0, false
		}
		kt, vt := b[0], b[1]
		c := int(int32(be32(b[2:])))
		if c < 0 {
			return 0, false
		}
		if c == 0 && !(validWire(kt) && validWire(vt)) {
			d.OkOpen = true // an empty map announcing a non-Thrift key/value type code: left open
		}
		i := 6
		for j := 0; j < c; j++ {
			n, ok := refSkip(d, b[i:], kt, depth-1)
			if !ok {
				return 0, false
			}
			i += n
			n, ok = refSkip(d, b[i:], vt, depth-1)
			if !ok {
				return 0, false
			}
			i += n
		}
		return i, true
	case 14, 15:
		if len(b) < 5 {
			return 0, false
		}
		et := b[0]
		c := int(int32(be32(b[1:])))
		if c < 0 {
			return 0, false
		}
		if c == 0 && !validWire(et) {
			d.OkOpen = true // an empty list/set announcing a non-Thrift element type code: left open
		}
		i := 5
		for j := 0; j < c; j++ {
			n, ok := refSkip(d, b[i:], et, depth-1)
			if !ok {
				return 0, false
			}
			i += n
		}
		return i, true
	}
	return 0, false // not a Thrift Binary type code
}

func fieldIndex(st *RStruct, id uint16) int {
	for i := range st.Fields {
		if st.Fields[i].ID == id {
			return i
		}
	}
	return -1
}

// refDecodeStruct reads one struct from b over the destination contents dst.
// Returns the number of bytes up to and including STOP, the resulting value, ok.
func refDecodeStruct(st *RStruct, b []byte, dst *RVal, d *refDec, depth int) (int, *RVal, bool) {
	if depth <= 0 {
		d.Reason = "depth"
		return 0, nil, false
	}
	r := &RVal{F: make([]*RVal, len(st.Fields)), Unknown: dst.Unknown}
	copy(r.F, dst.F)
	seen := make([]bool, len(st.Fields))
	var unk []byte
	i := 0
	for {
		if len(b)-i < 1 {
			d.Reason = "truncated before field type"
			return 0, nil, false
		}
		wt := b[i]
		i++
		if wt == 0 {
			break
		}
		if len(b)-i < 2 {
			d.Reason = "truncated field id"
			return 0, nil, false
		}
		id := be16(b[i:])
		i += 2
		fi := fieldIndex(st, id)
		if fi < 0 || wireType(st.Fields[fi].T) != wt {
			n, ok := refSkip(d, b[i:], wt, skipDepthLimit)
			if !ok {
				d.Reason = "malformed unknown field"
				return 0, nil, false
			}
			if st.HasUnknown {
				unk = append(unk, b[i-3:i+n]...)
			}
			i += n
			continue
		}
		f := &st.Fields[fi]
		if seen[fi] {
			d.ValueOpen = true // a field id occurring twice: left open by the properties
		}
		seen[fi] = true
		var n int
		var v *RVal
		var ok bool
		switch {
		case f.T.Kind == KStruct && !f.Ptr:
			n, v, ok = refDecodeStruct(f.T.Struct, b[i:], applyInit(f.T.Struct, r.F[fi]), d, depth-1)
		default:
			n, v, ok = refDecodeValue(f.T, b[i:], d, depth-1)
		}
		if !ok {
			return 0, nil, false
		}
		r.F[fi] = v
		i += n
	}
	for k := range st.Fields {
		if st.Fields[k].Req == ReqRequired && !seen[k] {
			d.Reason = "required field missing"
			if d.Missing == "" {
				d.Missing = st.Fields[k].Name
			}
			return 0, nil, false
		}
	}
	if st.HasUnknown && len(unk) > 0 {
		r.Unknown = unk
	}
	return i, r, true
}

// refDecodeValue reads a value the decoder creates afresh (everything except by-value struct fields).
func refDecodeValue(t *RType, b []byte, d *refDec, depth int) (int, *RVal, bool) {
	if depth <= 0 {
		d.Reason = "depth"
		return 0, nil, false
	}
	if s := fixedWireSize(wireType(t)); s > 0 {
		if len(b) < s {
			d.Reason = "truncated scalar"
			return 0, nil, false
		}
		switch t.Kind {
		case KBool:
			if b[0] > 1 {
				d.ValueOpen = true
			}
			return 1, &RVal{U: uint64(b[0])}, true
		case KI8:
			return 1, &RVal{U: uint64(int64(int8(b[0])))}, true
		case KI16:
			return 2, &RVal{U: uint64(int64(int16(be16(b))))}, true
		case KI32, KEnum:
			return 4, &RVal{U: uint64(int64(int32(be32(b))))}, true
		default:
			return 8, &RVal{U: be64(b)}, true
		}
	}
	switch t.Kind {
	case KString, KBinary:
		if len(b) < 4 {
			d.Reason = "truncated string header"
			return 0, nil, false
		}
		l := int(int32(be32(b)))
		if l < 0 {
			d.Reason = "negative length"
			return 0, nil, false
		}
		if l > len(b)-4 {
			d.Reason = "string exceeds input"
			return 0, nil, false
		}
		return 4 + l, &RVal{B: b[4 : 4+l]}, true
	case KStruct:
		return refDecodeStruct(t.Struct, b, newStructDst(t.Struct), d, depth)
	case KList, KSet:
		if len(b) < 5 {
			d.Reason = "truncated list header"
			return 0, nil, false
		}
		c := int(int32(be32(b[1:])))
		if c < 0 {
			d.Reason = "negative count"
			return 0, nil, false
		}
		if b[0] != wireType(t.Elem) {
			d.Reason = "element type mismatch"
			return 0, nil, false
		}
		r := &RVal{}
		i := 5
		for j := 0; j < c; j++ {
			n, v, ok := refDecodeValue(t.Elem, b[i:], d, depth-1)
			if !ok {
				return 0, nil, false
			}
			r.Elems = append(r.Elems, v)
			i += n
		}
		return i, r, true
	case KMap:
		if len(b) < 6 {
			d.Reason = "truncated map header"
			return 0, nil, false
		}
		c := int(int32(be32(b[2:])))
		if c < 0 {
			d.Reason = "negative count"
			return 0, nil, false
		}
		if b[0] != wireType(t.Key) || b[1] != wireType(t.Elem) {
			d.Reason = "map type mismatch"
			return 0, nil, false
		}
		r := &RVal{}
		i := 6
		for j := 0; j < c; j++ {
			n, k, ok := refDecodeValue(t.Key, b[i:], d, depth-1)
			if !ok {
				return 0, nil, false
			}
			i += n
			n, v, ok := refDecodeValue(t.Elem, b[i:], d, depth-1)
			if !ok {
				return 0, nil, false
			}
			i += n
			r.Keys = append(r.Keys, k)
			r.Elems = append(r.Elems, v)
		}
		if len(r.Keys) > 1 {
			// equal keys collapse in a Go map; which entry survives is Go map semantics (last wins) -- we only
			// compare values when all keys are distinct
			dup := false
			for x := range r.Keys {
				for y := x + 1; y < len(r.Keys); y++ {
					dup = vrt.Or(dup, refKeyEq(t.Key, r.Keys[x], r.Keys[y]))
				}
			}
			if dup {
				d.ValueOpen = true
			}
		}
		return i, r, true
	}
	return 0, nil, false
}
