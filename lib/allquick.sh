#!/bin/sh
# runs every claimed check (quick tier) sequentially; prints one summary line per property
cd /verif
for p in $(python3 -c "import json;print(' '.join(c['property_id'] for c in json.load(open('MANIFEST.json'))['checks']))" 2>/dev/null || echo C01 C02 C03 C04 C05 C06 C07 C08 C09 C10 C11 C12 C13 C14 C15 C16 C17); do
  timeout 3400 ./check $p 2>&1 | grep -E "^(VIOLATION|KNOWN|MACHINERY|INCONCLUSIVE|ENGINE|REPLAY|GENERATOR|C[0-9][0-9] )" | cut -c1-260 | head -12
  echo "exit($p)=$?"
done
