#!/bin/sh
# usage: diffsolvers.sh <dir with *.smt2 query logs (GOSYM_SMTLOG)>
# Replays every logged session on z3 5.1.0 (deciding back end), z3 4.8.12 and cvc5 and compares the verdict sequences.
cd "$1" || exit 2
i=0
for f in *.smt2; do
  i=$((i+1)); g=q$i.in; cp "$f" $g
  n=$(grep -c check-sat $g)
  timeout 900 z3-new $g 2>&1 | grep -E '^(sat|unsat|unknown)$' > $g.new
  timeout 900 z3 $g 2>&1 | grep -E '^(sat|unsat|unknown)$' > $g.old
  sed 's/(set-option :timeout [0-9]*)//' $g | timeout 1800 cvc5 --incremental --produce-models --lang=smt2 2>/dev/null | grep -E '^(sat|unsat|unknown)$' > $g.cvc5
  echo "$f queries=$n z3-5.1.0=$(wc -l < $g.new) z3-4.8.12=$(wc -l < $g.old) cvc5=$(wc -l < $g.cvc5) disagree(4.8.12)=$(diff $g.new $g.old | grep -c '^[<>]') disagree(cvc5)=$(diff $g.new $g.cvc5 | grep -c '^[<>]')"
done
