#!/usr/bin/env python3
"""keepseed.py <seedid> <check_result text>: files a confirmed seeded change from /tmp/seed_<id>_out under seeded/<id>/."""
import sys, os, json, shutil
sid, res = sys.argv[1], sys.argv[2]
src = '/tmp/seed_%s_out' % sid
dst = os.path.join(os.path.dirname(os.path.dirname(os.path.abspath(__file__))), 'seeded', sid)
os.makedirs(dst, exist_ok=True)
shutil.copy(src + '/patch.diff', dst + '/patch.diff')
shutil.copy(src + '/demo_test.go', dst + '/demo_test.go')
try:
    am = json.load(open(src + '/meta.json'))
except Exception as e:
    am = {'summary': open(src + '/meta.json', errors='replace').read()[:3000]}
json.dump(am, open(dst + '/agent_meta.json', 'w'), indent=1)
meta = {'property': sid[:3], 'summary': am.get('summary', ''), 'needs': am.get('needs', ''), 'files_changed': am.get('files_changed', []),
        'confirmed_by_me': 'lib/seedtest.sh: fresh worktree of /repo HEAD; demo passes without the patch, fails with it; go test ./... passes in ., fuzz, tests with the patch',
        'check_result': res}
json.dump(meta, open(dst + '/meta.json', 'w'), indent=1)
print('kept', dst)
