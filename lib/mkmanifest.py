#!/usr/bin/env python3
"""Writes MANIFEST.json from lib/props.py (claimed checks) and the not_applicable table below."""
import json, os, sys
sys.path.insert(0, os.path.dirname(os.path.abspath(__file__)))
from props import PROPS, MANIFEST_TEXT, NOT_APPLICABLE

VERIF = os.path.dirname(os.path.dirname(os.path.abspath(__file__)))
checks = []
for pid in sorted(PROPS):
    t = MANIFEST_TEXT[pid]
    checks.append({
        'property_id': pid,
        'quick_cmd': './check %s --tier quick' % pid,
        'thorough_cmd': './check %s --tier thorough' % pid,
        'evidence_file': 'evidence/%s.json' % pid,
        'replay_cmd_template': './check %s --replay {path}' % pid,
        'engine': 'gosym',
        'level_claimed': {'category': 'model_checking', 'text': t['level'], 'design_ref': t['ref']},
        'level_note': t['note'],
        'technique': t['technique'],
    })
m = {
    'version': 1,
    'setup_cmd': 'sh ./setup.sh',
    'hooks': {'guard': 'verif', 'enable': 'none needed: harnesses are injected as build overlays (go/packages Overlay for the engine, go test -overlay for native replay); no file of /repo is changed',
              'baseline_off_cmd': 'sh /verif/baseline.sh', 'source_commits': [], 'add_only': True},
    'engines': [{'name': 'gosym', 'path': 'engine/', 'serves_properties': sorted(PROPS),
                 'kind_free_text': 'bounded symbolic executor for Go written for this task: go/ssa (x/tools v0.29.0) of /repo\'s current tree + overlay harnesses -> SMT-LIB2 bit-vector queries to z3 (5.1.0 as z3-new; 4.8.12 and cvc5 for diffing); counterexamples replayed natively'}],
    'checks': checks,
    'not_applicable': [{'property_id': k, 'reason': v} for k, v in sorted(NOT_APPLICABLE.items()) if k not in PROPS],
    'notes': 'See DESIGN.md. Exit 0 = held on everything explored (KNOWN-FINDING lines allowed); exit 1 + VIOLATION line = natively reproduced violation; exit 2 = machinery failure (never a verdict).',
}
json.dump(m, open(os.path.join(VERIF, 'MANIFEST.json'), 'w'), indent=1)
print('MANIFEST.json:', len(checks), 'checks,', len(m['not_applicable']), 'not applicable')
