#!/bin/sh
# usage: ovbuild.sh <overlay dir> [pkg]  -- compile the overlay natively (type check) 
export GOFLAGS=-mod=mod GOPROXY=off GOSUMDB=off GOTOOLCHAIN=local
python3 - "$1" > /tmp/ovbuild.json <<'PY'
import json,os,sys
d=sys.argv[1]; ov={}
for root,_,files in os.walk(d):
    for f in files:
        if f.endswith('.go'):
            p=os.path.join(root,f); ov[os.path.join('/repo',os.path.relpath(p,d))]=p
print(json.dumps({'Replace':ov}))
PY
cd /repo && go test -c -vet=off -overlay /tmp/ovbuild.json -o /dev/null ${2:-.}
