"""Property -> job sets, attribution rules, bounds."""

CODEC_FAMS_Q = ['mix', 'scalar', 'list', 'map', 'default', 'nocopy', 'unknown', 'ids', 'nest', 'threshold', 'twin', 'spelling', 'required']
CODEC_FAMS_T = ['mix_full', 'scalar', 'list', 'map', 'default', 'nocopy', 'unknown', 'ids', 'nest', 'threshold_full', 'twin', 'spelling', 'required']

JOBSETS = {
    'codec': {
        'gen': {'families': {'quick': CODEC_FAMS_Q, 'thorough': CODEC_FAMS_T},
                'bounds': {'quick': '2,2,2,2', 'thorough': '2,2,2,2'}},
        'kinds': ['codec'],
        'cfg': {'quick': {'timeout_s': 600, 'solver_timeout_ms': 10000}, 'thorough': {'timeout_s': 1800, 'solver_timeout_ms': 60000}},
        'wall': {'quick': 2400, 'thorough': 9000},
    },
}

JOBSETS['alloc'] = {
    # C18: the codec corpus again, measuring allocating operations in the steady-state size+encode region
    'gen': {'families': {'quick': CODEC_FAMS_Q, 'thorough': CODEC_FAMS_T}, 'bounds': {'quick': '2,2,2,2', 'thorough': '2,2,2,2'}, 'also': 'codec=alloc'},
    'kinds': ['alloc'],
    'cfg': {'quick': {'timeout_s': 600, 'solver_timeout_ms': 10000}, 'thorough': {'timeout_s': 1800, 'solver_timeout_ms': 60000}},
    'wall': {'quick': 2400, 'thorough': 9000},
}

JOBSETS['bytes'] = {
    'gen': {'families': {'quick': ['bytes8'], 'thorough': ['bytes12']}, 'bounds': {'quick': '2,2,2,2', 'thorough': '2,2,2,2'}},
    'kinds': ['bytes'],
    'cfg': {'quick': {'timeout_s': 300, 'solver_timeout_ms': 10000}, 'thorough': {'timeout_s': 3000, 'solver_timeout_ms': 60000}},
    'wall': {'quick': 2400, 'thorough': 9000},
}

JOBSETS['decmsg'] = {
    'gen': {'families': {'quick': ['evolve', 'required', 'default', 'nocopy', 'mix'], 'thorough': ['evolve_full', 'required', 'default', 'nocopy', 'mix_full']}, 'bounds': {'quick': '1,1,1,2', 'thorough': '2,2,1,2'}},
    'kinds': ['decmsg', 'hop'],
    'cfg': {'quick': {'timeout_s': 600, 'solver_timeout_ms': 10000}, 'thorough': {'timeout_s': 3000, 'solver_timeout_ms': 60000}},
    'wall': {'quick': 2400, 'thorough': 9000},
}

RPKG = 'github.com/cloudwego/frugal/internal/reflect'
JOBSETS['unit'] = {
    'jobs': {t: [
        {'id': 'unit/span-lemma', 'entry': RPKG + '.VerifSpanLemma', 'reach': ['kept', 'fresh'], 'cfg': {'sym_alloc': True}, 'tags': ['unit', 'C06']},
        {'id': 'unit/bitset-lemma', 'entry': RPKG + '.VerifBitsetLemma', 'reach': ['set', 'unset'], 'tags': ['unit', 'C09']},
        {'id': 'unit/descmap', 'entry': RPKG + '.VerifDescMapProtocol', 'reach': ['end'], 'tags': ['unit', 'C08']},
        {'id': 'unit/decoder-malloc', 'entry': RPKG + '.VerifDecoderMalloc', 'reach': ['typed', 'large', 'small'], 'cfg': {'sym_alloc': True}, 'tags': ['unit', 'C06']},
    ] for t in ('quick', 'thorough')},
    'cfg': {'quick': {'timeout_s': 300, 'solver_timeout_ms': 30000}, 'thorough': {'timeout_s': 1800, 'solver_timeout_ms': 120000}},
    'wall': {'quick': 900, 'thorough': 3600},
}

JOBSETS['dec2'] = {
    'gen': {'families': {'quick': ['dec2'], 'thorough': ['dec2']}, 'bounds': {'quick': '1,1,1,2', 'thorough': '2,2,2,2'}},
    'kinds': ['dec2'],
    'cfg': {'quick': {'timeout_s': 300, 'solver_timeout_ms': 10000}, 'thorough': {'timeout_s': 3000, 'solver_timeout_ms': 60000}},
    'wall': {'quick': 2400, 'thorough': 9000},
}

JOBSETS['hist'] = {
    'gen': {'families': {'quick': ['hist'], 'thorough': ['hist']}, 'bounds': {'quick': '1,1,1,2', 'thorough': '2,2,2,2'}},
    'kinds': ['hist', 'decmsg'],
    'cfg': {'quick': {'timeout_s': 600, 'solver_timeout_ms': 10000}, 'thorough': {'timeout_s': 3000, 'solver_timeout_ms': 60000}},
    'wall': {'quick': 2400, 'thorough': 9000},
}

import re as _re, os as _os
_iv = open(_os.path.join(_os.path.dirname(_os.path.dirname(_os.path.abspath(__file__))), 'harness', 'overlay', 'zz_verif_invalid.go')).read()
_NCASES = len(_re.findall(r'ivc\[Iv\w+\]\("', _iv))
_NARGS = 9
FPKG = 'github.com/cloudwego/frugal'
JOBSETS['invalid'] = {
    'jobs': {t: [{'id': 'invalid/def%02d' % i, 'entry': FPKG + '.VerifInvalidDef', 'reach': ['end'], 'cfg': {'params': {'case': i}}, 'tags': ['invalid']} for i in range(_NCASES)] +
                [{'id': 'invalid/arg%d' % i, 'entry': FPKG + '.VerifInvalidArg', 'reach': ['end'], 'cfg': {'params': {'case': i}}, 'tags': ['invalid']} for i in range(_NARGS)]
             for t in ('quick', 'thorough')},
    'cfg': {'quick': {'timeout_s': 300}, 'thorough': {'timeout_s': 900}},
    'wall': {'quick': 1200, 'thorough': 3600},
}

JOBSETS['mutmsg'] = {
    'gen': {'families': {'quick': ['mutmsg'], 'thorough': ['mutmsg_full']}, 'bounds': {'quick': '1,1,1,2', 'thorough': '1,1,1,2'}},
    'kinds': ['mutmsg'],
    'cfg': {'quick': {'timeout_s': 400, 'solver_timeout_ms': 20000}, 'thorough': {'timeout_s': 3000, 'solver_timeout_ms': 60000}},
    'wall': {'quick': 1800, 'thorough': 9000},
}

def _depth_jobs(tier):
    ds_known = [1, 2, 48, 100, 341, 342, 511, 512, 1023, 1024, 2000] if tier == 'quick' else [1, 2, 3, 10, 47, 48, 49, 100, 341, 342, 500, 511, 512, 513, 1000, 1023, 1024, 1025, 2000, 5000]
    ds_unk = [1, 2, 31, 32, 33, 48, 64, 65, 66, 100, 2000]
    jobs = []
    for via in range(5):
        for d in ds_known:
            jobs.append({'id': 'depth/known/via%d/d%d' % (via, d), 'entry': FPKG + '.VerifDepthKnown', 'setup': FPKG + '.VerifSetupDepth', 'reach': ['end'],
                         'cfg': {'params': {'d': d, 'via': via}, 'max_depth': 200000, 'step_limit': 50000000}, 'tags': ['depth']})
        for d in ds_unk:
            jobs.append({'id': 'depth/unknown/via%d/d%d' % (via, d), 'entry': FPKG + '.VerifDepthUnknown', 'setup': FPKG + '.VerifSetupDepth', 'reach': ['end'],
                         'cfg': {'params': {'d': d, 'via': via}, 'max_depth': 200000, 'step_limit': 50000000}, 'tags': ['depth']})
    # wide structs nested deep: 30 variable-size sibling fields on every level of a 47/48-level nest (still <= 48 levels)
    for via, d in ((0, 47), (1, 23), (2, 23), (3, 23), (4, 27)):
        for wide in ((30,) if tier == 'quick' else (1, 30, 60)):
            jobs.append({'id': 'depth/known/via%d/d%d/wide%d' % (via, d, wide), 'entry': FPKG + '.VerifDepthKnown', 'setup': FPKG + '.VerifSetupDepth', 'reach': ['end', 'accepted'],
                         'cfg': {'params': {'d': d, 'via': via, 'wide': wide}, 'max_depth': 200000, 'step_limit': 50000000}, 'tags': ['depth']})
    return jobs

JOBSETS['depth'] = {
    'jobs': {t: _depth_jobs(t) + [{'id': 'depth/budget/via%d/k%d' % (v, k), 'entry': RPKG + '.VerifDepthBudget', 'reach': ['end', 'zero', 'enough', 'short'], 'cfg': {'params': {'k': k, 'via': v}}, 'tags': ['depth']} for v in (0, 1) for k in ((1, 2, 4) if t == 'quick' else (1, 2, 3, 4, 6, 8))] + [{'id': 'depth/budget/via%d/k2/wide3' % v, 'entry': RPKG + '.VerifDepthBudget', 'reach': ['end', 'zero', 'enough', 'short'], 'cfg': {'params': {'k': 2, 'via': v, 'wide': 3}}, 'tags': ['depth']} for v in (0, 1)] for t in ('quick', 'thorough')},
    'cfg': {'quick': {'timeout_s': 300}, 'thorough': {'timeout_s': 900}},
    'wall': {'quick': 1200, 'thorough': 3600},
}

OPKG = 'github.com/cloudwego/frugal/internal/opts'
_ENVS = [{'FRUGAL_MAX_INLINE_DEPTH': '2', 'FRUGAL_MAX_INLINE_IL_SIZE': '257'}, {'FRUGAL_MAX_INLINE_DEPTH': '3', 'FRUGAL_MAX_INLINE_IL_SIZE': '0x7fffffffffffffff'}]
JOBSETS['legacy'] = {
    # codec cores of the nesting family with the legacy environment variables holding valid values from process start
    'gen': {'families': {'quick': ['nest'], 'thorough': ['nest', 'default']}, 'bounds': {'quick': '1,1,1,2', 'thorough': '2,2,2,2'}},
    'kinds': ['codec'],
    'gen_env': _ENVS,
    'jobs': {t: [{'id': 'legacy/codec', 'entry': FPKG + '.VerifLegacy', 'reach': ['end'], 'tags': ['legacy']},
                 {'id': 'legacy/codec/all-kinds', 'entry': FPKG + '.VerifLegacy', 'reach': ['end'], 'cfg': {'params': {'t': 1}}, 'tags': ['legacy']},
                 {'id': 'legacy/codec/nested-defaults', 'entry': FPKG + '.VerifLegacy', 'reach': ['end'], 'cfg': {'params': {'t': 2, 'S': 1, 'L': 1, 'M': 1, 'D': 1}}, 'tags': ['legacy']}] +
                [{'id': 'legacy/envdepth/via%d/d%d' % (via, d), 'entry': FPKG + '.VerifDepthKnown', 'setup': FPKG + '.VerifSetupDepth', 'reach': ['end'],
                  'cfg': {'params': {'d': d, 'via': via}, 'max_depth': 200000, 'step_limit': 50000000, 'env': {'FRUGAL_MAX_INLINE_DEPTH': '64', 'FRUGAL_MAX_INLINE_IL_SIZE': '1000'}}, 'tags': ['legacy']}
                 for via in range(5) for d in (48, 100, 1024)] +
                [{'id': 'legacy/env/len%d' % n, 'entry': OPKG + '.VerifParseEnv', 'reach': ['end'] + (['valid'] if n else []), 'cfg': {'sym_env_len': n, 'env': ({} if n else {'FRUGAL_MAX_INLINE_DEPTH': ''})}, 'tags': ['legacy'], 'no_tv': True}
                 for n in ((0, 1, 2, 3) if t == 'quick' else (0, 1, 2, 3, 4, 5))]
             for t in ('quick', 'thorough')},
    'cfg': {'quick': {'timeout_s': 300, 'solver_timeout_ms': 10000}, 'thorough': {'timeout_s': 1800, 'solver_timeout_ms': 60000}},
    'wall': {'quick': 900, 'thorough': 3600},
}

DPKG = 'github.com/cloudwego/frugal/internal/defs'
def _parse_jobs(tier):
    jobs = []
    ntypes = 9
    for t in range(ntypes):
        for mode in (1, 2, 3):
            jobs.append({'id': 'parse/type%d/mode%d' % (t, mode), 'entry': DPKG + '.VerifParseType', 'reach': ['end'], 'cfg': {'params': {'type': t, 'mode': mode}}, 'tags': ['parse']})
        for ln in ((0, 1, 2) if tier == 'quick' else (0, 1, 2, 3)):
            if t in (0, 1, 2, 3, 6, 7) or ln <= 2:
                jobs.append({'id': 'parse/type%d/len%d' % (t, ln), 'entry': DPKG + '.VerifParseType', 'reach': ['end'], 'cfg': {'params': {'type': t, 'mode': 0, 'len': ln}}, 'tags': ['parse']})
    return jobs

JOBSETS['parse'] = {
    'jobs': {t: _parse_jobs(t) for t in ('quick', 'thorough')},
    'cfg': {'quick': {'timeout_s': 600, 'solver_timeout_ms': 10000}, 'thorough': {'timeout_s': 3000, 'solver_timeout_ms': 30000}},
    'wall': {'quick': 1800, 'thorough': 7200},
}

def _conc_jobs(tier):
    # (mode, preemption bound): mode 0 two first uses of mutually nested types, 1 first use + steady state,
    # 2 all three goroutines, 3 the same fresh type from two goroutines
    if tier == 'quick':
        combos = [(0, 2), (1, 2), (3, 2), (4, 2), (2, 1), (6, 1), (7, 1), (5, -1), (8, 2), (9, 1)]
    else:
        combos = [(0, 4), (1, 4), (3, 4), (4, 4), (2, 2), (6, 2), (7, 2), (5, 1), (8, 3), (9, 2)]   # (mode 5 with 2 preemptions exceeded the path budget in a measured run)
    jobs = [{'id': 'conc/mode%d/pb%d' % (m, max(pb, 0)), 'entry': FPKG + '.VerifConcurrent', 'setup': FPKG + '.VerifSetupConc', 'reach': ['end'],
             'cfg': {'params': {'mode': m}, 'preemption_bound': pb, 'step_limit': 2000000000}, 'tags': ['conc', 'C08'], 'no_tv': True} for m, pb in combos]
    # the same with every Pool.Get missing (fresh objects) instead of LIFO hand-over between goroutines
    for m, pb in ([(2, 1), (6, -1), (8, 1)] if tier == 'quick' else [(2, 2), (6, 1), (5, 1), (8, 2)]):
        jobs.append({'id': 'conc/mode%d/pb%d/poolmiss' % (m, max(pb, 0)), 'entry': FPKG + '.VerifConcurrent', 'setup': FPKG + '.VerifSetupConc', 'reach': ['end'],
                     'cfg': {'params': {'mode': m, 'pool': 1}, 'preemption_bound': pb, 'step_limit': 2000000000}, 'tags': ['conc', 'C08'], 'no_tv': True})
    return jobs

JOBSETS['conc'] = {
    'jobs': {t: _conc_jobs(t) for t in ('quick', 'thorough')},
    'cfg': {'quick': {'timeout_s': 1500, 'solver_timeout_ms': 10000}, 'thorough': {'timeout_s': 6000, 'solver_timeout_ms': 30000}},
    'wall': {'quick': 1800, 'thorough': 7200},
}

PROPS = {
    'C18': {'jobsets': ['alloc'], 'phases': [], 'translator_validation': 6},
    'C17': {'jobsets': ['legacy'], 'phases': ['', 'encode', 'decode'], 'translator_validation': 2, 'also_labels': r'^(C\d\d |M-)'},
    'C15': {'jobsets': ['depth'], 'phases': ['decode'], 'translator_validation': 4},
    'C12': {'jobsets': ['codec', 'parse'], 'phases': ['encode', 'decode'], 'job_filter': r'codec/(Sp|Sc|Tw|Id|Li_|Se_|Mx)|parse/', 'also_labels': r'^(C01|C02|C04)'},
    'C13': {'jobsets': ['invalid', 'parse'], 'phases': ['', 'sibling'], 'translator_validation': 4, 'also_labels': r'^C07 a valid type sharing'},
    'C07': {'jobsets': ['hist', 'dec2', 'invalid'], 'phases': ['pred', 'decode', 'sibling'], 'also_labels': r'^(C03|C09|C05|C06|C01)',
            'job_filter': r'^(hist|dec2|decmsg)/|^invalid/def(%s)$' % '|'.join('%02d' % i for i in range(_NCASES - 3, _NCASES))},
    'C06': {'jobsets': ['unit', 'dec2', 'decmsg', 'codec'], 'phases': [], 'job_filter': r'unit/(span|decoder)|^decmsg/|^dec2/|^codec/', 'also_labels': r'^M-(scan|align)'},
    'C01': {'jobsets': ['codec'], 'phases': ['decode']},
    'C02': {'jobsets': ['codec'], 'phases': []},
    'C03': {'jobsets': ['decmsg', 'bytes'], 'phases': ['decode'], 'job_filter': r'^(decmsg|bytes)/'},
    'C04': {'jobsets': ['codec'], 'phases': ['encode']},
    'C05': {'jobsets': ['bytes', 'mutmsg'], 'phases': ['decode']},
    'C08': {'jobsets': ['conc', 'unit', 'codec', 'decmsg', 'hist'], 'phases': [], 'job_filter': r'^conc/|unit/descmap|^codec/(Sc|Li_|Mp_s|Df|Uk|Ns|Mr|Tw|Mx)|^decmsg/|^hist/', 'also_labels': r'^(C08|M-released|deadlock)'},
    'C09': {'jobsets': ['unit', 'decmsg', 'hist', 'bytes', 'codec'], 'phases': [], 'job_filter': r'unit/bitset|Rq|Hs|By_unk|ScA_|ScD_|Id(Lo|Mid|Hi)|Mx',
            'also_labels': r'^(C03 a well-formed|C03 every transmitted|C05 DecodeObject succeeds|C02 bytes equal)'},
    'C10': {'jobsets': ['codec', 'decmsg'], 'phases': [], 'job_filter': r'Df|ScD_|LeafD|NsB|Mx',
            'also_labels': r'^(C01 round trip|C02 bytes equal|C04 EncodedSize|C03 every transmitted)'},
    'C11': {'jobsets': ['decmsg', 'codec', 'bytes', 'hist'], 'phases': [], 'job_filter': r'^(?!hop/Mx).*(hop/|MinusH|Retyped|Renum|TOut|Uk|By_unk|Mx)|^hist/',   # hop/Mx*: see DESIGN s8.21
            'also_labels': r'^(C03 every transmitted|C03 a well-formed|C01 round trip|C02 bytes equal|C04 EncodedSize)'},
    'C14': {'jobsets': ['decmsg', 'codec'], 'phases': [], 'job_filter': r'^(?!.*DfNc).*(Nc|Mx)',   # DfNc: see DESIGN s8.22
            'also_labels': r'^(C03 every transmitted|C01 round trip|C06 does not overlap the input)'},
    'C16': {'jobsets': ['codec', 'decmsg'], 'phases': []},
}

_CODEC_NOTE = ('Trusted: go/ssa lowering, gc/amd64 layout from go/types, the environment models of reflect/sync/fmt/runtime.mallocgc '
               '(DESIGN.md s3, validated per run by concrete-mode translator validation against the native build), z3, the generated '
               'reference codec. Bounds (strings/lists/maps <= 2 elements quick, <= 3 thorough; corpus of generated types) are in the '
               'evidence file; larger values and types outside the generator grammar are outside the claim.')

MANIFEST_TEXT = {
    'C01': {'level': 'Bounded symbolic execution of the real EncodedSize/EncodeObject/DecodeObject (and the real registration code) from go/ssa for every '
                     'generated corpus type: all scalar contents / string bytes are solver variables, shapes are enumerated by solver-checked choices; the '
                     'round-trip assertion against the schema-derived reference is decided per path by z3 for all values; counterexamples are replayed natively.',
            'ref': 'DESIGN.md s7 C01', 'note': _CODEC_NOTE, 'technique': 'SSA-level symbolic execution + SMT (z3), differential against generated reference codec'},
    'C02': {'level': 'Same harness: the bytes written by EncodeObject are compared byte-for-byte, as bit-vector terms over all values, with the reference '
                     'Thrift Binary encoder generated from the schema (not from the tags) for every corpus type incl. all 126 map key/value kind pairs.',
            'ref': 'DESIGN.md s7 C02', 'note': _CODEC_NOTE, 'technique': 'SSA-level symbolic execution + SMT (z3), byte-level differential vs reference encoder'},
    'C04': {'level': 'Same harness: EncodedSize (by pointer and by value) equals the reference length on every path for all values; EncodeObject into buffers '
                     'of length 0, n/2, n-1 (cap==len and spare capacity) must return an error, report no length and leave every byte past the buffer untouched.',
            'ref': 'DESIGN.md s7 C04', 'note': _CODEC_NOTE, 'technique': 'SSA-level symbolic execution + SMT (z3) with a byte-addressed memory model (bounds monitor)'},
    'C16': {'level': 'Same harness with the memory-model monitor M-frozen: every store the implementation makes to the user value (deep) during size/encode and to '
                     'the input buffer during decode is a violation; buffer tail and re-encoding are compared as terms.',
            'ref': 'DESIGN.md s7 C16', 'note': _CODEC_NOTE, 'technique': 'SSA-level symbolic execution + SMT (z3), frozen-memory monitor'},
}

MANIFEST_TEXT.update({
    'C03': {'level': 'Bounded symbolic execution of the real DecodeObject on (a) structured foreign messages: a symbolic value of a writer schema W is encoded by the '
                     'reference encoder in several field orders with trailing bytes and decoded into a fresh or fully pre-filled destination of a related reader type T '
                     '(fields added / removed / retyped / renumbered, unknown fields of every wire type nested in known containers); (b) every byte string up to N bytes. '
                     'n and the decoded value are compared with an independent reference decoder for all values.',
            'ref': 'DESIGN.md s7 C03', 'note': _CODEC_NOTE + ' Message shapes: strings/lists/maps <= 1 element quick (2 thorough); arbitrary inputs N <= 8 bytes quick (12 thorough). Regions the property leaves open (duplicate field ids, BOOL bytes other than 0/1, duplicate map keys, prior contents of by-value struct fields) are not asserted.',
            'technique': 'SSA-level symbolic execution + SMT (z3), differential against reference decoder'},
    'C05': {'level': 'Every byte of the input is a solver variable: for every byte string of length 0..N and each destination type, on every path DecodeObject must not panic / '
                     'fault / read outside the input (Go panics and the memory-model bounds monitor are violations), must succeed exactly when the independent reference '
                     'decoder finds a well-formed message, with work (executed SSA instructions) and requested memory bounded linearly in N.',
            'ref': 'DESIGN.md s7 C05', 'note': _CODEC_NOTE + ' N <= 8 quick, N <= 12 thorough, 7 destination types (scalars, lists, maps, nested structs, unknown-field holder, enums, containers of one-byte elements); structured mutation: every truncation / one symbolic byte / one symbolic 32-bit length or count field in well-formed messages of 7 writer types; longer inputs and the unbounded-length header arithmetic (H_hdr) are outside the claim. The dependency gopkg/thrift skipper is executed from source.',
            'technique': 'SSA-level symbolic execution over fully symbolic input bytes + SMT (z3)'},
    'C06': {'level': '(1) Inductive step of the real bump allocator span.Malloc from an arbitrary valid pre-state (frontier p, request n up to 4 MiB as solver variables, align 1/2/4/8): '
                     'alignment, containment, disjointness from earlier allocations and the invariant are decided by z3 for all values; the same for tDecoder.Malloc dispatch. '
                     '(2) In every decode harness an ownership walk over the decoded object checks, per pointer/slice/string: aligned, owned by this decode, typed for GC when it holds '
                     'pointers, inside its allocation, disjoint from all other pieces and from the input. (3) Histories: decode, overwrite the input, decode again with the same pooled '
                     'decoder, optionally with a FAILING decode (truncated message) in between; first object unchanged, all memory disjoint; uninitialised allocator memory is modelled as fresh symbolic bytes.',
            'ref': 'DESIGN.md s7 C06', 'note': _CODEC_NOTE + ' The Go allocator/GC is not executed: GC-safety is argued from scan-class + ownership facts. Block base addresses are 16-byte aligned in the model (real mallocgc guarantees 8 for these sizes; align <= 8).',
            'technique': 'SMT-decided inductive lemma over real SSA + symbolic execution with a byte-addressed memory model'},
    'C09': {'level': 'Reader types with required fields at ids on both sides of presence-set word boundaries (0,1,63,64,65,127 / 128,255,256,32767,32768,65534), nested in list/map/struct, '
                     'receive messages in which any subset is omitted or has the wrong wire type, also with one field id sent twice in every struct (occurrences are not a count of distinct fields): failure with INVALID_DATA naming the first missing field exactly when the reference finds one missing; '
                     'also all byte strings <= N for a type with required id 300. Encode side: required fields are written for all values (byte equality with the reference).',
            'ref': 'DESIGN.md s7 C09', 'note': _CODEC_NOTE + ' Presence-set lemma (unit/bitset-lemma): word index case-split over all 1024 words x 4 relative positions, bit positions and word contents symbolic: set/unset/test are exact and never leave the array. Dirty presence bits: havocked pool (all 1024 words symbolic) and predecessor decodes.',
            'technique': 'SSA-level symbolic execution + SMT (z3), differential against reference decoder/encoder'},
    'C10': {'level': 'Types with default initialisers: the omission decision of EncodedSize/EncodeObject for optional fields equal to / different from the declared default is decided for all values '
                     '(incl. -0.0/NaN via fp.eq, empty vs nil binary) by byte equality with the reference; nested structs created by the decoder (pointer field, list element, map value, by value and by pointer) '
                     'must equal "defaults then message" while the top-level destination keeps its prior contents.',
            'ref': 'DESIGN.md s7 C10', 'note': _CODEC_NOTE, 'technique': 'SSA-level symbolic execution + SMT (z3) incl. floating-point equality'},
    'C11': {'level': 'Holder and holder-less reader types against newer writer schemas: holder contents must be the byte-exact concatenation, in message order, of that struct\'s unrecognised fields '
                     '(computed by the reference decoder); EncodedSize/EncodeObject re-emit them; second hop: decode by T, re-encode, decode by the reference under W yields the original value.',
            'ref': 'DESIGN.md s7 C11', 'note': _CODEC_NOTE, 'technique': 'SSA-level symbolic execution + SMT (z3), two-hop differential'},
    'C14': {'level': 'nocopy string/binary fields (plain, optional pointer, nested, in list elements) mixed with ordinary ones: after decode every nocopy value must be a view inside the input buffer with cap == len, '
                     'zero-length values must not reference the buffer, and no other pointer of the decoded graph may overlap the buffer; contents are compared with the reference decoder.',
            'ref': 'DESIGN.md s7 C14', 'note': _CODEC_NOTE, 'technique': 'SSA-level symbolic execution with address-level aliasing checks'},
})

MANIFEST_TEXT.update({
    'C07': {'level': 'The decode under test (structured message, reference decoder as stateless oracle) is preceded by a predecessor chosen by the solver-explored menu: pools HAVOCKED to arbitrary contents '
                     '(presence bitset: 1024 symbolic words; unknown-field index: arbitrary size and stale entries; bump allocator at frontier classes), a successful decode of another type sharing pooled objects and type nodes, '
                     'a decode failing at every truncation point, size+encode by value, a full decode of the same type; plus decode/overwrite/(failing decode)/decode histories, neighbour types registered before the type under test, and failed registrations of types that share a valid nested struct (other flavour: by value vs by pointer) with a valid type used before and after.',
            'ref': 'DESIGN.md s7 C07', 'note': _CODEC_NOTE + ' Histories longer than two calls are covered only through the havocked-pool (one inductive step) form; sync.Pool is modelled as LIFO reuse.',
            'technique': 'SSA-level symbolic execution + SMT (z3) from havocked pool states (one inductive step) and enumerated predecessors'},
    'C13': {'level': ('For %d definitions' % _NCASES) + ' of the enumerated invalid classes (unsupported Go kinds, missing/contradicting/broken annotations, invalid keys and pointer forms, bad ids/requiredness/options, invalid two levels down, '
                     'mutually recursive types with an invalid member, invalid types sharing a valid nested struct with a valid sibling) and 9 non-struct arguments, the real registration and entry-point code is executed by the engine in three orders of first use mixed with a valid type: '
                     'EncodeObject/DecodeObject must return an error with n == 0 and untouched buffer, EncodedSize must end in an ordinary Go panic (runtime faults are distinguished), the same on every call, everything reaching '
                     'the invalid definition rejected too, and the valid sibling must still round-trip a symbolic value.',
            'ref': 'DESIGN.md s7 C13', 'note': _CODEC_NOTE + ' Registration outcomes depend on no symbolic input: for them the engine acts as an exact interpreter with fault detection (exhaustive over the enumerated classes, not solver-decided). Symbolic part: ParseType on annotation texts with symbolic bytes (see C12) must reject everything outside the allowed token sequences and never panic.',
            'technique': 'SSA-level execution of the real registration code with panic/fault classification + symbolic sibling round trip'},
    'C15': {'level': '(1) Decode with a SYMBOLIC depth budget on messages nested k levels: zero budget refused before reading input, recursion depth (engine-measured frames) bounded by the budget, insufficient budget gives the depth-limit error, '
                     'sufficient budget success. (2) Recursive type reached through struct / list / map value / map key / mixtures with concrete nesting depths up to 2000 (5000 thorough) and symbolic leaf: <= 48 levels accepted with the leaf intact, '
                     '> 1023 levels depth-limit error, in between success or depth-limit error only, never a panic; the same nests in unknown-field position against the skipper limit of 64.',
            'ref': 'DESIGN.md s7 C15', 'note': _CODEC_NOTE + ' The inductive reading (budget strictly decreases on every recursive call) is checked for budgets <= 40 and nesting <= 4 (8 thorough), not proved for all; depths beyond 5000 are not executed.',
            'technique': 'SSA-level symbolic execution with symbolic depth budget + concrete deep-structure runs'},
    'C17': {'level': 'On two types (a default-bearing leaf; LgAll with list<enum>, map<enum,..>, map<..,enum>, set<double>, list of structs, binary, map of struct pointers): opts.MaxInlineDepth/MaxInlineILSize hold arbitrary (symbolic) values and one legacy call with an arbitrary argument (setters, NoJIT, GetStats, Pretouch on valid/invalid/nil types with options, option constructors) is placed '
                     'before / between / after EncodedSize, EncodeObject and DecodeObject of a symbolic value: sizes, bytes and decoded value equal the reference for all values; setters return their argument; Pretouch returns nil. '
                     'FRUGAL_MAX_INLINE_DEPTH as a symbolic string of length 0..3 (5 thorough): every valid decimal above the minimum parses to its value without panic. '
                     'The codec cores of the nesting family (thorough: + default family) and deep messages (48/100/1024 levels, 5 nesting mixtures) are executed with FRUGAL_MAX_INLINE_DEPTH / FRUGAL_MAX_INLINE_IL_SIZE set to valid '
                     'values before package initialisation (pairs 2/257, 3/2^63-1, 64/1000): all results equal the environment-independent reference.',
            'ref': 'DESIGN.md s7 C17', 'note': _CODEC_NOTE + ' strconv.ParseUint on symbolic text is a model (decimal digits; other bases excluded from the valid region); os.Getenv is modelled.',
            'technique': 'SSA-level symbolic execution + SMT (z3), non-interference by differential against the reference'},
})

MANIFEST_TEXT['C12'] = {
    'level': 'Differential over the program dimension: the tags of every corpus type are EMITTED from a schema description by the inverse of the parser under test, the reference codec is derived from the schema '
             'and never reads a tag, and frugal\'s real tag lookup / field resolution / type-annotation parser is executed by the engine to build the descriptor. One schema in 9 equivalent spellings (frugal vs thrift tag, both with '
             'a contradicting thrift tag, omitted scalar annotations, byte for i8, package-qualified struct names, surrounding spaces, id-only thrift tags), decoy fields (untagged, unexported, embedded, foreign tag), declaration '
             'order != id order, list-vs-set at nesting depth 0..2 on shared Go types, enum vs i64, ids 0..65535: sizes, bytes and decoded values must equal the reference for all values.',
    'ref': 'DESIGN.md s7 C12', 'note': _CODEC_NOTE + ' Additionally the real ParseType runs on annotation texts with SYMBOLIC bytes for 9 Go types (every text of length <= 2 (3 thorough); every 1-byte substitution, deletion and insertion of each valid spelling): accepted exactly when an independent tokeniser finds one of the finitely many allowed token sequences, with the parsed type checked; never a panic. Open (not asserted): keyword positions holding a proper substring of a keyword (strings.Contains matching), whitespace-only texts.',
    'technique': 'SSA-level execution of the real tag parser + symbolic codec differential against schema-derived reference'}

MANIFEST_TEXT['C08'] = {
    'level': 'BOUNDED (context-bounded schedules x symbolic data) plus discipline invariants. (a) Schedule exploration on the real code: k goroutines (k = 2..4) making concurrent first uses of '
             'mutually nested types, first use next to steady-state calls, the same fresh type twice, a nested type used top-level during the registration that nests it, and a failing (rolled back) '
             'registration next to first uses of the types it nests, and steady-state-only callers of the same registered types (maps, lists of structs, by-value struct map values); the executor switches goroutines at every synchronisation operation (atomic slot load/store, Mutex/RWMutex with blocking semantics, '
             'sync.Pool Get/Put, start/end) and enumerates every schedule with <= P preemptions (quick P=2/1/0 for 2/3/4 goroutines, thorough P=4/2/2); field values are symbolic. Checked on every schedule: '
             'vector-clock happens-before race detection on every plain access and Go-map operation, deadlock, no crash, and size / n / err / bytes / decoded value equal to independently written expected '
             'results (= the sequential execution). (b) Discipline invariants on all registrations and steady-state calls of the codec/decmsg/hist harnesses: descriptor-map protocol under symbolic keys incl. '
             'bucket collisions, no store to memory already published through an atomic pointer, plain caches accessed / descriptor map written only with sdsmu held, descriptors complete at publication time, '
             'registration-built memory frozen during steady-state calls, pooled scratch untouched after Put.',
    'ref': 'DESIGN.md s7 C08', 'note': 'Outside the claim: more preemptions / goroutines than the bound, other type graphs than the five-type family of the harness, weak-memory reorderings (atomics assumed sequentially '
            'consistent), internals of sync.Pool / Mutex / reflect / runtime (modelled). Switching only at synchronisation operations is complete for race-free executions, and races are checked on those executions. '
            'Schedule-dependent witnesses are replayed (inputs only) on a -race build of the real code up to 30 times; when the native scheduler never hits the interleaving they are reported from the engine alone '
            '(engine_only_schedule, schedule in the replay file); discipline violations likewise (engine_only_discipline). ' + _CODEC_NOTE,
    'technique': 'SSA-level symbolic execution with context-bounded schedule enumeration, vector-clock happens-before race detection and synchronisation-discipline monitors'}

MANIFEST_TEXT['C18'] = {
    'level': 'PARTIAL (necessary condition, decided for all values and shapes within the codec bounds). For every type of the codec corpus the engine executes, after the type has been registered and one size+encode of the same '
             'value has warmed the per-type pools, EncodedSize(ptr) and EncodeObject(buf, nil, ptr) with a sufficient buffer on a symbolic value, and a monitor counts every executed operation that allocates on the heap '
             'WHATEVER the compiler\'s escape analysis decides: append beyond capacity (growslice), make with a non-constant length or capacity, make(chan), go statements, the linknamed runtime.mallocgc, reflect.New / MakeMap / '
             'MakeMapWithSize, a sync.Pool miss (New called), fmt.Sprintf/Sprint/Errorf, strings.Split/Join, sort.Slice, and every executed allocation of a local variable whose address is passed (directly or through unsafe.Pointer / type conversions) to a call through a func value loaded from memory - the one rule of gc\'s escape analysis that holds regardless of inlining (arguments of unknown callees escape). The assertion "no such operation is executed" is checked on every path (all shapes up to the bounds, '
             'all contents symbolic). A witness is confirmed natively by the runtime.MemStats.Mallocs delta over the same region (minimum of 5 repetitions).',
    'ref': 'DESIGN.md s7 C18',
    'note': 'Outside the claim, and the reason this is partial: allocations that exist only because the gc compiler\'s escape analysis moves a variable, a closure, an interface box or the reflect.MapIter to the heap are, apart from the indirect-call rule above, invisible '
            'at the go/ssa level this technique encodes (go/ssa marks every address-taken local as heap, which would be a false alarm on the unchanged tree), so a change that makes a local escape is NOT detected by the solver-based check; '
            'if the native translator-validation run of the sampled jobs measures an allocation the engine did not count, the check stops with an engine/native disagreement (exit 2), not with a verdict. EncodedSize/EncodeObject called by value, '
            'buffers that are too short and error paths are excluded by the property. sync.Pool is modelled as LIFO reuse (no GC-driven eviction). ' + _CODEC_NOTE,
    'technique': 'SSA-level symbolic execution + SMT (z3) with an allocation-event monitor (operations that allocate independently of escape analysis); native confirmation by MemStats.Mallocs delta'}

NOT_APPLICABLE = {
    'C18': 'Allocation behaviour is decided by the gc compiler\'s escape analysis/inlining and runtime internals that do not exist at the go/ssa level this technique encodes; measuring MemStats would be a different technique (DESIGN.md s7 C18).',
}
