"""Property -> job sets, attribution rules, bounds."""

CODEC_FAMS_Q = ['scalar', 'list', 'map']
CODEC_FAMS_T = ['scalar', 'list', 'map']

JOBSETS = {
    'codec': {
        'gen': {'families': {'quick': CODEC_FAMS_Q, 'thorough': CODEC_FAMS_T},
                'bounds': {'quick': '2,2,2,2', 'thorough': '3,3,3,3'}},
        'kinds': ['codec'],
        'cfg': {'quick': {'timeout_s': 240, 'solver_timeout_ms': 10000}, 'thorough': {'timeout_s': 1800, 'solver_timeout_ms': 60000}},
        'wall': {'quick': 1500, 'thorough': 7200},
    },
}

PROPS = {
    'C01': {'jobsets': ['codec'], 'phases': ['decode']},
    'C02': {'jobsets': ['codec'], 'phases': []},
    'C04': {'jobsets': ['codec'], 'phases': ['encode']},
    'C16': {'jobsets': ['codec'], 'phases': []},
}
