"""Property -> job sets, attribution rules, bounds."""

CODEC_FAMS_Q = ['scalar', 'list', 'map', 'default', 'nocopy', 'unknown', 'ids', 'nest']
CODEC_FAMS_T = CODEC_FAMS_Q

JOBSETS = {
    'codec': {
        'gen': {'families': {'quick': CODEC_FAMS_Q, 'thorough': CODEC_FAMS_T},
                'bounds': {'quick': '2,2,2,2', 'thorough': '3,3,3,3'}},
        'kinds': ['codec'],
        'cfg': {'quick': {'timeout_s': 240, 'solver_timeout_ms': 10000}, 'thorough': {'timeout_s': 1800, 'solver_timeout_ms': 60000}},
        'wall': {'quick': 1500, 'thorough': 7200},
    },
}

JOBSETS['bytes'] = {
    'gen': {'families': {'quick': ['bytes8'], 'thorough': ['bytes12']}, 'bounds': {'quick': '2,2,2,2', 'thorough': '2,2,2,2'}},
    'kinds': ['bytes'],
    'cfg': {'quick': {'timeout_s': 300, 'solver_timeout_ms': 10000}, 'thorough': {'timeout_s': 3000, 'solver_timeout_ms': 60000}},
    'wall': {'quick': 1500, 'thorough': 7200},
}

JOBSETS['decmsg'] = {
    'gen': {'families': {'quick': ['evolve', 'required', 'default', 'nocopy'], 'thorough': ['evolve_full', 'required', 'default', 'nocopy']}, 'bounds': {'quick': '1,1,1,2', 'thorough': '2,2,1,2'}},
    'kinds': ['decmsg', 'hop'],
    'cfg': {'quick': {'timeout_s': 300, 'solver_timeout_ms': 10000}, 'thorough': {'timeout_s': 3000, 'solver_timeout_ms': 60000}},
    'wall': {'quick': 1500, 'thorough': 7200},
}

PROPS = {
    'C01': {'jobsets': ['codec'], 'phases': ['decode']},
    'C02': {'jobsets': ['codec'], 'phases': []},
    'C03': {'jobsets': ['decmsg', 'bytes'], 'phases': ['decode'], 'job_filter': r'^(decmsg|bytes)/'},
    'C04': {'jobsets': ['codec'], 'phases': ['encode']},
    'C05': {'jobsets': ['bytes'], 'phases': ['decode']},
    'C09': {'jobsets': ['decmsg', 'bytes', 'codec'], 'phases': [], 'job_filter': r'Rq|By_unk|ScA_|ScD_|Id(Lo|Mid|Hi)',
            'also_labels': r'^(C03 a well-formed|C03 every transmitted|C05 DecodeObject succeeds|C02 bytes equal)'},
    'C10': {'jobsets': ['codec', 'decmsg'], 'phases': [], 'job_filter': r'Df|ScD_|LeafD|NsB',
            'also_labels': r'^(C01 round trip|C02 bytes equal|C04 EncodedSize|C03 every transmitted)'},
    'C11': {'jobsets': ['decmsg', 'codec', 'bytes'], 'phases': [], 'job_filter': r'hop/|MinusH|Retyped|Renum|TOut|Uk|By_unk',
            'also_labels': r'^(C03 every transmitted|C03 a well-formed|C01 round trip|C02 bytes equal|C04 EncodedSize)'},
    'C14': {'jobsets': ['decmsg', 'codec'], 'phases': [], 'job_filter': r'Nc',
            'also_labels': r'^(C03 every transmitted|C01 round trip|C06 does not overlap the input)'},
    'C16': {'jobsets': ['codec', 'decmsg'], 'phases': []},
}

_CODEC_NOTE = ('Trusted: go/ssa lowering, gc/amd64 layout from go/types, the environment models of reflect/sync/fmt/runtime.mallocgc '
               '(DESIGN.md s3, validated per run by concrete-mode translator validation against the native build), z3, the generated '
               'reference codec. Bounds (strings/lists/maps <= 2 elements quick, <= 3 thorough; corpus of generated types) are in the '
               'evidence file; larger values and types outside the generator grammar are outside the claim.')

MANIFEST_TEXT = {
    'C01': {'level': 'Bounded symbolic execution of the real EncodedSize/EncodeObject/DecodeObject (and the real registration code) from go/ssa for every '
                     'generated corpus type: all scalar contents / string bytes are solver variables, shapes are enumerated by solver-checked choices; the '
                     'round-trip assertion against the schema-derived reference is decided per path by z3 for all values; counterexamples are replayed natively.',
            'ref': 'DESIGN.md s7 C01', 'note': _CODEC_NOTE, 'technique': 'SSA-level symbolic execution + SMT (z3), differential against generated reference codec'},
    'C02': {'level': 'Same harness: the bytes written by EncodeObject are compared byte-for-byte, as bit-vector terms over all values, with the reference '
                     'Thrift Binary encoder generated from the schema (not from the tags) for every corpus type incl. all 126 map key/value kind pairs.',
            'ref': 'DESIGN.md s7 C02', 'note': _CODEC_NOTE, 'technique': 'SSA-level symbolic execution + SMT (z3), byte-level differential vs reference encoder'},
    'C04': {'level': 'Same harness: EncodedSize (by pointer and by value) equals the reference length on every path for all values; EncodeObject into buffers '
                     'of length 0, n/2, n-1 (cap==len and spare capacity) must return an error, report no length and leave every byte past the buffer untouched.',
            'ref': 'DESIGN.md s7 C04', 'note': _CODEC_NOTE, 'technique': 'SSA-level symbolic execution + SMT (z3) with a byte-addressed memory model (bounds monitor)'},
    'C16': {'level': 'Same harness with the memory-model monitor M-frozen: every store the implementation makes to the user value (deep) during size/encode and to '
                     'the input buffer during decode is a violation; buffer tail and re-encoding are compared as terms.',
            'ref': 'DESIGN.md s7 C16', 'note': _CODEC_NOTE, 'technique': 'SSA-level symbolic execution + SMT (z3), frozen-memory monitor'},
}

NOT_APPLICABLE = {
    'C03': 'not built yet (planned: H_dec_WT, DESIGN.md s7 C03)',
    'C05': 'not built yet (planned: H_bytes, DESIGN.md s7 C05)',
    'C06': 'not built yet (planned: allocator lemma + ownership walk)',
    'C07': 'not built yet (planned: dirty pools / call histories)',
    'C08': 'not built yet (planned: bounded interleavings of the descriptor cache)',
    'C09': 'not built yet (planned: bitset lemma + required fields)',
    'C10': 'not built yet (planned: defaults family)',
    'C11': 'not built yet (planned: unknown-field holder)',
    'C12': 'not built yet (planned: spellings + symbolic parser text)',
    'C13': 'not built yet (planned: invalid definitions)',
    'C14': 'not built yet (planned: nocopy aliasing)',
    'C15': 'not built yet (planned: depth induction)',
    'C17': 'not built yet (planned: legacy controls)',
    'C18': 'Allocation behaviour is decided by the gc compiler\'s escape analysis/inlining and runtime internals that do not exist at the go/ssa level this technique encodes; measuring MemStats would be a different technique (DESIGN.md s7 C18).',
}
