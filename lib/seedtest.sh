#!/bin/sh
# usage: seedtest.sh <name> <patch.diff> <demo_test.go> <prop> [prop...]
# Confirms a seeded change in a scratch worktree (suite passes, demo fails with / passes without), then runs the checks on it.
name=$1; patch=$2; demo=$3; shift 3
export GOFLAGS=-mod=mod GOPROXY=off GOSUMDB=off GOTOOLCHAIN=local
wt=/tmp/seedwt_$name
git -C /repo worktree remove --force $wt 2>/dev/null
git -C /repo worktree add -q $wt ${SEED_BASE:-HEAD} || exit 2
cd $wt
demodir=$(grep -o 'internal/[a-z]*' $demo | head -1)
case "$(grep -m1 '^package ' $demo)" in
  "package frugal_test"|"package frugal") dd=. ;;
  "package reflect"|"package reflect_test") dd=internal/reflect ;;
  "package defs"|"package defs_test") dd=internal/defs ;;
  *) dd=. ;;
esac
cp $demo $dd/zz_seed_demo_test.go
echo "== demo WITHOUT change (must pass)"
(cd $dd && go test -vet=off -count=1 -run 'Seed|seed|Demo' . 2>&1 | tail -3)
git apply $patch || { echo "PATCH-DOES-NOT-APPLY"; exit 2; }
echo "== demo WITH change (must fail)"
(cd $dd && go test -vet=off -count=1 -run 'Seed|seed|Demo' . 2>&1 | tail -5)
rm $dd/zz_seed_demo_test.go
echo "== existing suite WITH change (must pass)"
for m in . fuzz tests; do (cd $m && go test -vet=off -count=1 ./... 2>&1 | grep -v "no test files" | grep -v "^ok" ); done
echo "== checks on the changed tree"
cd /verif
sb=/tmp/seedbuild_$name; rm -rf $sb; mkdir -p $sb; cp build/gosym $sb/ 2>/dev/null
for p in "$@"; do VERIF_REPO=$wt VERIF_BUILD=$sb VERIF_OUT=$sb timeout 3000 ./check $p 2>&1 | grep -E "^(VIOLATION|KNOWN|MACHINERY|C[0-9][0-9] )" | cut -c1-220 | head -8; done
git -C /repo worktree remove --force $wt
mkdir -p /tmp/seedreplays/$name; cp -r $sb/replays/* /tmp/seedreplays/$name/ 2>/dev/null; rm -rf $sb
