"""Translator validation: the engine, in concrete mode (every nondet value a fixed
pseudo-random function of its call index), and the native build run the same harness;
the observable streams (vrt.Observe) and the sets of failed checks must coincide."""


def translator_validation(js, items):
    res = js.engine_concrete(items, 'tv')
    n_ok, bad = 0, []
    for (job, _, seed), r in zip(items, res):
        jid = job['id']
        if r.get('error'):
            bad.append('%s: engine error %s' % (jid, r['error'][:200]))
            continue
        eobs = r.get('observed') or []
        efail = sorted(set(x.split(':', 1)[1] for x in (r.get('failed_checks') or []) if x.startswith('check:')))
        estatus = [x for x in (r.get('failed_checks') or []) if x.startswith('status:')]
        estatus = estatus[0][7:] if estatus else '?'
        nat = js.native(job, tv_seed=seed, expect_obs=eobs if estatus == 'ok' else None)
        engine_only = ('C06 memory belongs', 'C06 extent lies', 'C06 pointer-bearing', 'C06 typed allocation')
        efail = [x for x in efail if not x.startswith(engine_only)]
        nfail = sorted(set(nat['failed']))
        if nat['panic'] and 'assumeFailed' in nat['panic']:
            if estatus == 'infeasible':
                n_ok += 1
            else:
                bad.append('%s seed=%d: native left the assumed region, engine status %s' % (jid, seed, estatus))
            continue
        if estatus in ('unsupported', 'steplimit', 'internal', 'infeasible'):
            bad.append('%s seed=%d: engine status %s in concrete mode, native ok' % (jid, seed, estatus))
            continue
        if estatus == 'ok':
            if nat['panic'] or nat['crashed']:
                bad.append('%s seed=%d: native run crashed/panicked but engine completed: %s' % (jid, seed, nat['out'][-300:]))
                continue
            if not nat.get('order_matched') or nfail != efail:
                bad.append('%s seed=%d: observables differ: native obs=%s fail=%s; engine obs=%s fail=%s' % (jid, seed, nat['obs'], nfail, eobs, efail))
                continue
        n_ok += 1
    return n_ok, bad
