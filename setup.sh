#!/bin/sh
# Offline build of the gosym engine (go 1.23 + golang.org/x/tools v0.29.0 from the module cache).
set -e
cd "$(dirname "$0")"
export GOFLAGS=-mod=mod GOPROXY=off GOSUMDB=off GOTOOLCHAIN=local
mkdir -p build evidence replays
(cd engine && go build -o ../build/gosym .)
echo "gosym built"
